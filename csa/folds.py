"""Folds of small factory functions over a finite set of abstract inputs (see bbfold for the idea): the function's source is interpreted by the
whitelist evaluator over symbolic objects and the captured outcome is compared with the documented result, so the rules built on it are
indifferent to local names, nesting of tests and hoisting.  ``None`` means "not foldable" and the caller keeps its structural rule."""

from __future__ import annotations

import ast
from typing import Any

from .minieval import Exhausted, Evaluator, Host, Raised, Refused, Sym, UserFunc
from .model import Repo
from .util import norm
from .foldpool import disk_cached


class Opaque:
    """Subscriptable placeholder for typing constructs such as ``type[Array]``."""

    def __getitem__(self, item: Any) -> "Opaque":
        return self


def fold_make_array(repo: Repo) -> dict | None:
    fi = repo.func("cstruct.py", "cstruct._make_array")
    # an expression whose identifiers happen to be resolvable without a context (a constant of the same name as an earlier field): the array
    # factory must not take that value - the parser already decided that this size is only known while reading
    expr = Sym("expr", {"expression": "count", "tokens": ["count"]}, {"evaluate": Host(lambda context=None: 3)})
    expression_cls = Sym("Expression")
    out: dict = {"cases": 0, "size_bad": [], "nt_bad": [], "align_bad": [], "attrs_bad": [], "name_bad": []}
    elem_kinds = {
        "static": {"size": 4, "dynamic": False},
        "dynamic": {"size": None, "dynamic": True},
        "unsized": {"size": None, "dynamic": False},
    }
    try:
        for nlabel, n in (("[]", None), ("[expr]", expr), ("[3]", 3), ("[0]", 0)):
            for elabel, eattrs in elem_kinds.items():
                made: list = []

                def make_type(name, bases, size, alignment=None, attrs=None, made=made):
                    made.append({"name": name, "bases": bases, "size": size, "alignment": alignment, "attrs": attrs or {}})
                    return Sym("made")

                elem = Sym("T", {"__name__": "T", "alignment": 4, "ArrayType": Sym("ArrayType"), **eattrs})
                cs = Sym("cs", {}, {"_make_type": Host(make_type)})
                env = {"isinstance": Host(lambda o, k: k == expression_cls and o is expr), "Expression": expression_cls, "cast": Host(lambda t, v: v),
                       "type": Opaque(), "Array": Opaque(), "T": Opaque()}
                try:
                    Evaluator(env, steps=5000).call_user(UserFunc(fi.node), [cs, elem, n], {})
                    res = made[-1] if made else None
                except Raised as e:
                    res = ("raise", str(e))
                out["cases"] += 1
                case = f"{elabel} element, {nlabel}"
                if isinstance(n, int) and elabel == "unsized":
                    if not (isinstance(res, tuple) and res[0] == "raise"):
                        out["size_bad"].append((case, "an array of an unsized, non-dynamic element must be refused", res if not isinstance(res, dict) else res["size"]))
                    continue
                if not isinstance(res, dict):
                    out["size_bad"].append((case, "no type was created", res))
                    continue
                want_size = n * 4 if isinstance(n, int) and elabel == "static" else None
                if res["size"] != want_size:
                    out["size_bad"].append((case, f"size {res['size']!r}", f"expected {want_size!r}"))
                if res["attrs"].get("null_terminated") is not (n is None):
                    out["nt_bad"].append((case, res["attrs"].get("null_terminated")))
                if res["alignment"] != 4:
                    out["align_bad"].append((case, res["alignment"]))
                if res["attrs"].get("type") is not elem or res["attrs"].get("num_entries") is not n:
                    out["attrs_bad"].append((case, {k: v for k, v in res["attrs"].items() if k != "null_terminated"}))
                want_name = "T[]" if n is None else f"T[{n}]"
                if res["name"] != want_name:
                    out["name_bad"].append((case, res["name"], want_name))
    except Refused:
        return None
    except (TypeError, KeyError, IndexError, ValueError, AttributeError):
        return None
    return out


def module_env(repo: Repo, rel: str, env: dict[str, Any] | None = None) -> dict[str, Any]:
    """``env`` plus the module-level functions of ``rel`` (so that a helper a method was split into is interpreted with it) and the module-level
    names bound to simple constants.  Names already in ``env`` win."""
    out: dict[str, Any] = dict(env or {})
    mod = repo.modules.get(rel)
    if mod is None:
        return out
    consts: dict[str, Any] = {}
    for st in mod.tree.body:
        tgt = val = None
        if isinstance(st, ast.Assign) and len(st.targets) == 1 and isinstance(st.targets[0], ast.Name):
            tgt, val = st.targets[0].id, st.value
        elif isinstance(st, ast.AnnAssign) and isinstance(st.target, ast.Name) and st.value is not None:
            tgt, val = st.target.id, st.value
        if tgt is None or tgt in out:
            continue
        try:
            v = Evaluator({}, steps=2000).ev(val, dict(consts))
        except (Refused, Raised, TypeError, ValueError, KeyError, AttributeError, IndexError, ZeroDivisionError):
            continue
        if isinstance(v, (int, str, bytes, float, tuple, frozenset, set)) or v is None:
            consts[tgt] = v
    out.update({k: v for k, v in consts.items() if k not in out})
    for q, f in mod.functions.items():
        if "." not in q and q not in out:
            out[q] = UserFunc(f.node, out)
    return out


def fold_resolve(repo: Repo) -> dict | None:
    """cstruct.resolve over alias tables: direct, chains, unknown names, cycles, over-long chains; a returned value must never be a string."""
    fi = repo.func("cstruct.py", "cstruct.resolve")
    ty = Sym("a-type")
    tables = {
        "type object passed through": ({}, ty, ty),
        "direct name": ({"t": ty}, "t", ty),
        "alias chain of 3": ({"a": "b", "b": "c", "c": ty}, "a", ty),
        "alias chain of 9": ({**{f"n{i}": f"n{i + 1}" for i in range(8)}, "n8": ty}, "n0", ty),
        "alias chain of 10 (the documented limit: the tenth lookup yields the type)": ({**{f"n{i}": f"n{i + 1}" for i in range(9)}, "n9": ty}, "n0", ty),
        "unknown name": ({"t": ty}, "u", "raise"),
        "dangling alias": ({"a": "b"}, "a", "raise"),
        "alias cycle": ({"a": "b", "b": "a"}, "a", "raise"),
        "self alias": ({"a": "a"}, "a", "raise"),
        "alias chain of 40": ({**{f"n{i}": f"n{i + 1}" for i in range(40)}, "n40": ty}, "n0", "raise-or-type"),
    }
    out: dict = {"cases": 0, "bad": []}
    try:
        for label, (typedefs, name, want) in tables.items():
            cs = Sym("cs", {"typedefs": dict(typedefs)})
            env = module_env(repo, "cstruct.py", {"isinstance": Host(lambda o, k: k is str and isinstance(o, str)), "str": str,
                                                   "log": Sym("log", {}, {m_: Host(lambda *a, **k: None) for m_ in ("debug", "info", "warning", "error")})})
            try:
                r = Evaluator(env, steps=20000).call_user(UserFunc(fi.node, env), [cs, name], {})
                got: Any = r
            except Raised:
                got = "raise"
            except Exhausted:
                got = "does not terminate"
            out["cases"] += 1
            if isinstance(got, str) and got != "raise":
                out["bad"].append((label, f"returned the string {got!r}", "a type or ResolveError"))
            elif want == "raise-or-type":
                if got not in ("raise", ty):
                    out["bad"].append((label, got, "a type or ResolveError"))
            elif got != want:
                out["bad"].append((label, got, want))
    except Refused:
        return None
    except (TypeError, KeyError, IndexError, ValueError, AttributeError):
        return None
    return out


def repo_exception_parents(repo: Repo) -> dict[str, list[str]]:
    """Class name -> base names for the exception classes the repository defines (exceptions.py), for the evaluator's except matching."""
    out: dict[str, list[str]] = {}
    mod = repo.modules.get("exceptions.py")
    if mod is not None:
        for st in mod.tree.body:
            if isinstance(st, ast.ClassDef):
                out[st.name] = [norm(b_).split(".")[-1] for b_ in st.bases]
    return out


def fold_getattr(repo: Repo) -> dict | None:
    """cstruct.__getattr__ over (constants, typedefs, name): a constant wins and is returned whatever its value (0, '', None, False); a typedef is
    resolved; an unknown name raises AttributeError; an alias that cannot be resolved raises the resolve error, not AttributeError."""
    fi = repo.func("cstruct.py", "cstruct.__getattr__")
    ty = Sym("a-type")
    cases = {
        "a constant 5": ({"N": 5}, {}, "N", 5), "a constant 0": ({"N": 0}, {}, "N", 0), "a constant ''": ({"N": ""}, {}, "N", ""),
        "a constant None": ({"N": None}, {}, "N", None), "a constant False": ({"N": False}, {}, "N", False),
        "a type": ({}, {"t": ty}, "t", ty), "an alias by name": ({}, {"a": "t", "t": ty}, "a", ty), "a name that is both": ({"x": 7}, {"x": ty}, "x", 7),
        "a constant named like an include guard": ({"__PROTO_H__": 1}, {}, "__PROTO_H__", 1), "a type with a dunder name": ({}, {"__u8__": ty}, "__u8__", ty),
        "an unknown name": ({"N": 1}, {"t": ty}, "zz", "AttributeError"), "a dangling alias": ({}, {"a": "missing"}, "a", "ResolveError"),
    }
    out: dict = {"cases": 0, "bad": []}
    parents = repo_exception_parents(repo)
    try:
        for label, (consts, typedefs, name, want) in cases.items():
            def resolve(x, typedefs=typedefs):
                n_ = 0
                while isinstance(x, str):
                    if x not in typedefs or n_ > 10:
                        raise Raised(f"ResolveError('Unknown type {x}')")
                    x = typedefs[x]
                    n_ += 1
                return x

            cs = Sym("cs", {"consts": dict(consts), "typedefs": dict(typedefs)}, {"resolve": Host(resolve)})
            env = {"__exc_parents__": parents, "isinstance": Host(lambda o, k: k is str and isinstance(o, str)), "str": str}
            try:
                got: Any = Evaluator(env, steps=5000).call_user(UserFunc(fi.node), [cs, name], {})
            except Raised as e:
                got = str(e).split("(")[0].split(":")[0].strip()
            out["cases"] += 1
            if got != want or (got is not want and not isinstance(want, (int, str))) or type(got) is not type(want):
                out["bad"].append((label, got, want))
    except Refused:
        return None
    except (TypeError, IndexError, ValueError):
        return None
    return out


def _uleb(n: int) -> bytes:
    out = bytearray()
    while True:
        b = n & 0x7F
        n >>= 7
        if n == 0:
            out.append(b)
            return bytes(out)
        out.append(b | 0x80)


def _sleb(n: int) -> bytes:
    out = bytearray()
    while True:
        b = n & 0x7F
        n >>= 7
        if (n == 0 and not b & 0x40) or (n == -1 and b & 0x40):
            out.append(b)
            return bytes(out)
        out.append(b | 0x80)


def leb_values() -> list[int]:
    vals = set(range(-300, 300))
    for k in list(range(6, 71)) + [126, 133, 140, 196]:   # encodings of 19, 20, 21 and 28 groups: no length is special
        for d in (-1, 0, 1):
            vals.add((1 << k) + d)
            vals.add(-(1 << k) + d)
    return sorted(vals)


class _Stream:
    def __init__(self, data: bytes = b""):
        self.data, self.pos, self.written = data, 0, bytearray()

    def sym(self) -> Sym:
        def read(n=-1):
            if n is None or n < 0:
                n = len(self.data) - self.pos
            chunk = self.data[self.pos:self.pos + n]
            self.pos += len(chunk)
            return chunk

        def write(b):
            self.written += bytes(b)
            return len(bytes(b))

        def seek(pos, whence=0):
            self.pos = pos if whence == 0 else (self.pos + pos if whence == 1 else len(self.data) + pos)
            return self.pos

        return Sym("stream", {}, {"read": Host(read), "write": Host(write), "tell": Host(lambda: self.pos), "seek": Host(seek)})


@disk_cached('leb128', ('types/leb128.py',))
def fold_leb128(repo: Repo) -> dict | None:
    """LEB128._write / _read folded over ~700 values for both signednesses against the reference (S)LEB128 encoding."""
    from .minieval import Exhausted

    wr = repo.func("types/leb128.py", "LEB128._write")
    rd = repo.func("types/leb128.py", "LEB128._read")
    out: dict = {"cases": 0, "write_bad": [], "read_bad": [], "loop_bad": []}
    base_env: dict[str, Any] = {}
    for name, val in wr.module.assigns.items():
        try:
            v_ = Evaluator({}).ev(val, {})
        except (Refused, Raised, TypeError, ValueError, KeyError):
            continue
        if isinstance(v_, (int, str, bytes)):
            base_env[name] = v_
    base_env = module_env(repo, "types/leb128.py", base_env)  # helpers the slots were split into
    try:
        for signed in (False, True):
            cls = Sym("leb", {"signed": signed}, {"__new__": Host(lambda c, v: v)})
            # class-level constants and helper methods of the type (limits, masks, private helpers) belong to what the slots compute with
            ci = repo.classes.get("LEB128")
            if ci is not None:
                for an, av in ci.attrs.items():
                    if an in cls.attrs:
                        continue
                    try:
                        cv = Evaluator(base_env).ev(av, dict(base_env))
                    except (Refused, Raised, TypeError, ValueError, KeyError):
                        continue
                    if isinstance(cv, (int, str, bytes, tuple, frozenset)) and not isinstance(cv, bool) or cv is None:
                        cls.attrs[an] = cv
                for q_, f_ in wr.module.functions.items():
                    if q_.startswith("LEB128.") and q_.count(".") == 1 and q_.split(".")[1] not in ("_read", "_write", "_read_0", "__new__"):
                        cls.methods.setdefault(q_.split(".")[1], UserFunc(f_.node))
            for v in leb_values():
                st = _Stream()
                out["cases"] += 1
                try:
                    n = Evaluator(base_env, steps=4000).call_user(UserFunc(wr.node), [cls, st.sym(), v], {})
                    got: Any = bytes(st.written)
                except Raised:
                    got, n = "raise", None
                except Exhausted:
                    out["loop_bad"].append(("write", signed, v))
                    continue
                if v < 0 and not signed:
                    if got != "raise":
                        out["write_bad"].append((signed, v, got, "refusal of a negative value"))
                    continue
                want = _sleb(v) if signed else _uleb(v)
                if got != want or n != len(want):
                    out["write_bad"].append((signed, v, got.hex() if isinstance(got, bytes) else got, want.hex()))
                # the reader must give the value back from the reference encoding, consuming exactly those bytes
                st = _Stream(want + b"\xaa\x01\x02\x03\x04\x05\x06\x07\x08\x09")
                try:
                    r = Evaluator(base_env, steps=4000).call_user(UserFunc(rd.node), [cls, st.sym()], {})
                except Raised as e:
                    r = f"raise {e}"
                except Exhausted:
                    out["loop_bad"].append(("read", signed, v))
                    continue
                if r != v or st.pos != len(want):
                    out["read_bad"].append((signed, v, want.hex(), r, st.pos))
            # a truncated value must raise, not loop or return - however long it already is
            for cut in (b"\x80" * 19, b"\x80" * 25, b"\xff" * 12):
                st = _Stream(cut)
                try:
                    r = Evaluator(base_env, steps=6000).call_user(UserFunc(rd.node), [cls, st.sym()], {})
                    out["read_bad"].append((signed, f"truncated input of {len(cut)} continuation bytes", "", r, st.pos))
                except Raised:
                    pass
                except Exhausted:
                    out["loop_bad"].append(("read", signed, "truncated input"))
            st = _Stream(b"\x80\x80")
            try:
                r = Evaluator(base_env, steps=4000).call_user(UserFunc(rd.node), [cls, st.sym()], {})
                out["read_bad"].append((signed, "truncated input 8080", "", r, st.pos))
            except Raised:
                pass
            except Exhausted:
                out["loop_bad"].append(("read", signed, "truncated input"))
        # null-terminated arrays: x[] stops at - and consumes - the first element whose *value* is zero, however that zero is encoded
        r0 = repo.func_opt("types/leb128.py", "LEB128._read_0")
        out["read0_bad"] = []
        if r0 is not None:
            io_sym = Sym("io", {"SEEK_CUR": 1, "SEEK_SET": 0, "SEEK_END": 2})
            for signed in (False, True):
                for label, data, want_vals, want_pos in (
                        ("5 7 0", b"\x05\x07\x00\x2a", [5, 7], 3), ("a minimal zero first", b"\x00\x09", [], 1), ("300 0", b"\xac\x02\x00\x01", [300], 3),
                        ("5 7 and a zero encoded as 80 00", b"\x05\x07\x80\x00\x2a\x09\x00", [5, 7], 4),
                        ("a zero encoded as 80 80 00", b"\x03\x80\x80\x00\x2a\x00", [3], 4),
                        ("no terminator", b"\x05\x07", "raise", None)):
                    cls = Sym("leb", {"signed": signed}, {"__new__": Host(lambda c, v: v), "_read": UserFunc(rd.node)})
                    st = _Stream(data)
                    try:
                        got = Evaluator({**base_env, "io": io_sym, "__imports__": {"io": io_sym}}, steps=8000).call_user(UserFunc(r0.node), [cls, st.sym()], {})
                        got = list(got)
                    except (Raised, EOFError):
                        got = "raise"
                    except Exhausted:
                        got = "does not terminate"
                    except Refused:
                        out["read0_bad"] = None  # outside the whitelist: the structural terminator rule decides
                        break
                    out["cases"] += 1
                    if got != want_vals or (want_pos is not None and st.pos != want_pos):
                        out["read0_bad"].append((signed, label, data.hex(), got, st.pos, want_vals, want_pos))
                if out["read0_bad"] is None:
                    break
    except Refused:
        return None
    except (TypeError, KeyError, IndexError, ValueError, AttributeError):
        return None
    return out


def fold_structure_call(repo: Repo) -> dict | None:
    """StructureMetaType.__call__ over (field list, arguments): which of {initialise from the argument, default-construct, parse} is taken.
    The bytes shortcut (initialise) is only indistinguishable from parsing when the structure has exactly one field, of a bytes type, and the
    argument has exactly its size; in every other case bytes must be parsed (so that short input raises)."""
    fi = repo.func("types/structure.py", "StructureMetaType.__call__")

    def ftype(kind: str, size: int) -> Sym:
        return Sym(f"{kind}{size}", {"size": size, "is_bytes": kind == "char"})

    def fld(name: str, t: Sym, bits: int | None = None) -> Sym:
        return Sym(f"field:{name}", {"_name": name, "name": name, "type": t, "bits": bits, "offset": 0, "alignment": 1})

    layouts = {
        "one char[4] field": [fld("magic", ftype("char", 4))],
        "char[4] then uint32": [fld("magic", ftype("char", 4)), fld("version", ftype("uint", 4))],
        "one uint32 field": [fld("version", ftype("uint", 4))],
        "no fields": [],
        "one char field": [fld("c", ftype("char", 1))],
        "one 4-bit field with char storage (char a:4)": [fld("a", ftype("char", 1), 4)],
    }
    arglists = {"1 byte": (b"!",), "4 bytes": (b"abcd",), "6 bytes": (b"abcdef",), "no arguments": (), "an int": (5,), "a 4-byte bytearray": (bytearray(b"abcd"),),
                "a 4-byte memoryview": (memoryview(b"abcd"),)}
    out: dict = {"cases": 0, "bad": []}
    try:
        for lname, fields in layouts.items():
            for aname, args in arglists.items():
                trace: list = []
                obj = Sym("obj", {f.attrs["_name"]: "<value>" for f in fields})

                def type_call(c, *a, trace=trace, obj=obj, **kw):
                    trace.append(("init", a))
                    return obj

                def setattr_(o, name, value, trace=trace):
                    trace.append(("set", name, value))

                def super_():
                    def parse(*a, trace=trace, **kw):
                        trace.append(("parse", a))
                        return Sym("parsed")

                    return Sym("super", {}, {"__call__": Host(parse)})

                def issub(t, k):
                    if k is bytes:
                        return isinstance(t, Sym) and bool(t.attrs.get("is_bytes"))
                    raise Refused("issubclass against a non-builtin")

                def isinst(o, k):
                    ks = k if isinstance(k, tuple) else (k,)
                    if all(x in (bytes, bytearray, memoryview, int, str) for x in ks):
                        return isinstance(o, ks)
                    raise Refused("isinstance against a non-builtin")

                env = {"type": Sym("type", {}, {"__call__": Host(type_call)}), "object": Sym("object", {}, {"__setattr__": Host(setattr_)}),
                       "super": Host(super_), "issubclass": Host(issub), "isinstance": Host(isinst), "bytearray": bytearray, "memoryview": memoryview,
                       **{q: UserFunc(f.node) for q, f in repo.module("types/base.py").functions.items() if "." not in q},
                       "getattr": Host(lambda o, n, *d: o.attrs.get(n, *d) if isinstance(o, Sym) else d[0]), "bytes": bytes}
                cls = Sym("S", {"__fields__": fields})
                Evaluator(env, steps=4000).call_user(UserFunc(fi.node), [cls, *args], {})
                kinds = [t[0] for t in trace if t[0] in ("init", "parse")]
                # only an immutable bytes object may be adopted as the value; a bytearray / memoryview must be parsed (the value would alias the caller's buffer)
                single_bytes = len(fields) == 1 and fields[0].attrs["type"].attrs["is_bytes"] and args and isinstance(args[0], bytes) \
                    and len(args[0]) == fields[0].attrs["type"].attrs["size"] and not fields[0].attrs["bits"]
                want = ["init"] if (single_bytes or not args) else ["parse"]
                out["cases"] += 1
                if kinds != want:
                    out["bad"].append((lname, aname, kinds, want))
                elif kinds == ["init"]:
                    sets = {t[1]: t[2] for t in trace if t[0] == "set"}
                    want_vals = {fields[0].attrs["_name"]: "<value>"} if single_bytes else {}
                    want_sizes = {fields[0].attrs["_name"]: len(args[0])} if single_bytes else {}
                    if sets.get("_values") != want_vals or sets.get("_sizes") != want_sizes:
                        out["bad"].append((lname, aname, f"bookkeeping {sets}", f"_values={want_vals} _sizes={want_sizes}"))
    except Refused:
        return None
    except (TypeError, KeyError, IndexError, ValueError, AttributeError):
        return None
    return out


def fold_meta_call(repo: Repo) -> dict | None:
    """MetaType.__call__ (shared by every type, reached from the structure / union / enum call as well) over argument shapes: the call parses
    exactly when it gets one positional argument that is a stream or a buffer (and not already an instance); a bytes object of exactly the
    type's size given to a bytes type is adopted; every other call constructs the value from *all* its arguments."""
    fi = repo.func("types/base.py", "MetaType.__call__")
    out: dict = {"cases": 0, "bad": []}
    stream = Sym("stream", {}, {"read": Host(lambda n=-1: b"")})
    inst = Sym("instance", {"is_instance": True})
    shapes = {
        "no arguments": ((), {}), "an int": ((5,), {}), "two ints": ((5, 6), {}), "a stream": ((stream,), {}), "4 bytes": ((b"abcd",), {}), "6 bytes": ((b"abcdef",), {}),
        "a bytearray": ((bytearray(b"abcd"),), {}), "a memoryview": ((memoryview(b"abcd"),), {}), "an instance of the type": ((inst,), {}),
        "bytes and an int": ((b"ab", 7), {}), "a stream and an int": ((stream, 7), {}), "keywords only": ((), {"a": 1}), "bytes and a keyword": ((b"abcd",), {"b": 2}),
        "a str": (("abcd",), {}),
    }
    try:
        for is_bytes_type in (False, True):
            for name, (args, kwargs) in shapes.items():
                trace: list = []

                def type_call(c, *a, trace=trace, **kw):
                    trace.append(("init", a, kw))
                    return Sym("obj")

                def isinst(o, k, is_bytes_type=is_bytes_type):
                    if isinstance(k, Sym) and k.label == "T":
                        return o is inst
                    ks = k if isinstance(k, tuple) else (k,)
                    if all(x in (bytes, bytearray, memoryview, int, str) for x in ks):
                        return isinstance(o, ks)
                    raise Refused("isinstance against a non-builtin")

                def issub(t, k, is_bytes_type=is_bytes_type):
                    if k is bytes:
                        return is_bytes_type
                    raise Refused("issubclass against a non-builtin")

                cls = Sym("T", {"size": 4}, {"_read": Host(lambda st, *a, trace=trace, **k: (trace.append(("parse-stream",)), Sym("parsed"))[1]),
                                              "reads": Host(lambda b, trace=trace: (trace.append(("parse-bytes", bytes(b))), Sym("parsed"))[1]),
                                              "read": Host(lambda b, trace=trace: (trace.append(("parse-any",)), Sym("parsed"))[1])})
                env = {"type": Sym("type", {}, {"__call__": Host(type_call)}), "isinstance": Host(isinst), "issubclass": Host(issub), "bytearray": bytearray,
                       "memoryview": memoryview, "bytes": bytes, "hasattr": Host(lambda o, n: isinstance(o, Sym) and n in o.methods),
                       **{q: UserFunc(f.node) for q, f in repo.module("types/base.py").functions.items() if "." not in q},
                       "super": Host(lambda: Sym("super", {}, {"__call__": Host(type_call)}))}
                Evaluator(env, steps=4000).call_user(UserFunc(fi.node), [cls, *args], dict(kwargs))
                kinds = [t[0] for t in trace]
                one = len(args) == 1 and args[0] is not inst
                if one and args[0] is stream:
                    want = ["parse-stream"]
                elif one and is_bytes_type and isinstance(args[0], bytes) and len(args[0]) == 4:
                    want = ["init"]
                elif one and isinstance(args[0], (bytes, bytearray, memoryview)):
                    want = ["parse-bytes"]
                else:
                    want = ["init"]
                out["cases"] += 1
                got = ["parse-bytes" if k_ == "parse-any" and not (args and args[0] is stream) else ("parse-stream" if k_ == "parse-any" else k_) for k_ in kinds]
                if got != want:
                    out["bad"].append((("bytes type, " if is_bytes_type else "") + name, got, want))
                elif want == ["init"]:
                    a_, kw_ = trace[0][1], trace[0][2]
                    if tuple(a_) != tuple(args) or dict(kw_) != dict(kwargs):
                        out["bad"].append((name, f"constructed from {a_} {kw_}", f"all the arguments {args} {kwargs}"))
    except Refused:
        return None
    except (TypeError, KeyError, IndexError, ValueError, AttributeError):
        return None
    return out


@disk_cached('unaryminus', ('expression.py',))
def fold_mark_unary_minus(repo: Repo, max_len: int = 5) -> dict | None:
    """Expression._mark_unary_minus over *every* token list up to ``max_len`` over a 7-token alphabet (bounded-exhaustive): a '-' is unary exactly
    when it starts the list or follows '(' or an operator - where a '-' that was itself just marked unary counts as an operator."""
    import itertools

    fi = repo.func_opt("expression.py", "Expression._mark_unary_minus")
    if fi is None:
        return None
    ci = repo.cls("Expression")
    try:
        tables = {}
        for name in ("binary_operators", "unary_operators"):
            node = ci.attrs.get(name)
            if not isinstance(node, ast.Dict):
                return None
            tables[name] = {k.value: None for k in node.keys if isinstance(k, ast.Constant)}
        marker = next((k for k in tables["unary_operators"] if k != "~"), None)
        if marker is None:
            return None
        ops = set(tables["binary_operators"]) | set(tables["unary_operators"])
        alphabet = ["-", "~", "(", ")", "7", "+", "<<"]
        out: dict = {"cases": 0, "bad": []}
        me = Sym("expr", dict(tables))
        env = {"set": Host(lambda it=(): set(it))}
        for n in range(0, max_len + 1):
            for toks in itertools.product(alphabet, repeat=n):
                want = []
                for i, t in enumerate(toks):
                    if t == "-" and (i == 0 or want[i - 1] in ops or want[i - 1] == "("):
                        want.append(marker)
                    else:
                        want.append(t)
                got = Evaluator(env, steps=3000).call_user(UserFunc(fi.node), [me, list(toks)], {})
                out["cases"] += 1
                if list(got) != want:
                    out["bad"].append((list(toks), list(got), want))
                    if len(out["bad"]) > 5:
                        return out
        return out
    except Refused:
        return None
    except (TypeError, KeyError, IndexError, ValueError, AttributeError):
        return None


# ------------------------------------------------------------------------------------------------ layout calculators
def _layout_kinds() -> dict[str, dict]:
    """Field kinds for the layout folds: (type size, alignment, bits, storage family)."""
    return {
        "u8": {"size": 1, "align": 1}, "u16": {"size": 2, "align": 2}, "u32": {"size": 4, "align": 4}, "u64": {"size": 8, "align": 8},
        "i24": {"size": 3, "align": 4}, "c5": {"size": 5, "align": 1}, "dyn": {"size": None, "align": 1}, "dyn4": {"size": None, "align": 4},
        "e16": {"size": 2, "align": 2, "enum_of": "u16"},
        "u8:3": {"size": 1, "align": 1, "bits": 3}, "u8:5": {"size": 1, "align": 1, "bits": 5}, "u16:4": {"size": 2, "align": 2, "bits": 4},
        "u32:12": {"size": 4, "align": 4, "bits": 12}, "e16:4": {"size": 2, "align": 2, "bits": 4, "enum_of": "u16"}, "u16:12": {"size": 2, "align": 2, "bits": 12},
        "u32@8": {"size": 4, "align": 4, "offset": 8}, "u8@1": {"size": 1, "align": 1, "offset": 1},
        "i24:4": {"size": 3, "align": 4, "bits": 4}, "i24:20": {"size": 3, "align": 4, "bits": 20},  # a unit whose size is not a multiple of its alignment
        "i16:4": {"size": 2, "align": 2, "bits": 4, "storage": "i16"},  # another storage type of the same size as u16: a new unit all the same
        "u16:0": {"size": 2, "align": 2, "bits": 0},  # a zero-width member: every walker treats it as a plain field (truthiness of field.bits)
    }


def _ref_struct_layout(kinds: list[dict], align: bool):
    """Reference layout: C rules plus this library's documented conventions (explicit offsets lead, everything behind a dynamic field has no
    static offset, a bit-field unit is opened per storage type, straddling is an error)."""
    offset: int | None = 0
    alignment = 0
    unit_type = None
    unit_off: int | None = 0
    remaining = 0
    offs: list = []
    for k in kinds:
        recorded = k.get("offset")
        if k.get("offset") is not None:
            offset = k["offset"]
        if align and offset is not None:
            offset += -offset & (k["align"] - 1)
        alignment = max(alignment, k["align"])
        if k.get("bits"):
            storage = k.get("storage") or k.get("enum_of") or ("u%d" % (k["size"] * 8))
            if remaining == 0 or storage != unit_type or (unit_type is not None and k.get("offset") is not None and unit_off is not None and offset > unit_off + k["size"]):
                unit_type, remaining, unit_off = storage, k["size"] * 8, offset
                if offset is not None:
                    offset += k["size"]
                recorded = unit_off
            remaining -= k["bits"]
            if remaining < 0:
                return "raise"
        else:
            unit_type, unit_off, remaining = None, 0, 0
            recorded = offset
            if offset is not None:
                offset = None if k["size"] is None else offset + k["size"]
        offs.append(recorded)
    if align and offset is not None:
        offset += -offset & (alignment - 1)
    return offset, alignment, offs


@disk_cached('layout', ('types/structure.py',))
def fold_struct_layout(repo: Repo, max_len: int = 2) -> dict | None:
    """StructureMetaType._calculate_size_and_offsets and UnionMetaType._calculate_size_and_offsets interpreted on every sequence of up to ``max_len``
    field kinds (plus a fixed set of longer ones), packed and aligned, against the reference layout."""
    import itertools

    sfi = repo.func("types/structure.py", "StructureMetaType._calculate_size_and_offsets")
    ufi = repo.func("types/structure.py", "UnionMetaType._calculate_size_and_offsets")
    kinds = _layout_kinds()
    enum_meta = Sym("EnumMetaType")
    types: dict[str, Sym] = {}

    def type_of(name: str, k: dict) -> Sym:
        base = name.split(":")[0].split("@")[0]
        if base not in types:
            attrs: dict[str, Any] = {"size": k["size"], "__name__": base, "alignment": k["align"]}
            if k.get("enum_of"):
                attrs["is_enum"] = True
                attrs["type"] = type_of(k["enum_of"], kinds[k["enum_of"]])
            types[base] = Sym(f"type:{base}", attrs)
        return types[base]

    def length(o):
        if isinstance(o, Sym):
            if o.attrs.get("size") is None:
                raise TypeError("Dynamic size")
            return o.attrs["size"]
        return len(o)

    env = {"isinstance": Host(lambda o, k: k is enum_meta and isinstance(o, Sym) and bool(o.attrs.get("is_enum"))), "EnumMetaType": enum_meta, "len": Host(length)}
    seqs: list[tuple[str, ...]] = []
    names = list(kinds)
    for n in range(0, max_len + 1):
        seqs += list(itertools.product(names, repeat=n))
    seqs += [("u8", "u32", "u16"), ("u8:3", "u8:5", "u8:3"), ("u16:4", "u16:12", "u16:4"), ("u8", "dyn", "u32", "u8"), ("u8:3", "u16:4", "u8:3", "u32"),
             ("u32", "u8:3", "u8@1", "u16"), ("c5", "u64", "u8", "e16:4", "u16:4"), ("u8", "i24", "u8", "u64"), ("u8:3", "dyn4", "u8:3", "u32"),
             ("dyn", "u8:3", "u8:5"), ("u8", "dyn4", "u16:4", "u16:12", "u8"), ("dyn", "u8:3", "u16:4", "u16:4"), ("dyn", "u8:5", "u8:5"), ("dyn", "u16:12", "u16:12"),
             ("u8", "dyn", "u32:12", "u32:12", "u32:12"), ("u64", "u8"), ("u8", "u64", "u8")]
    out: dict = {"cases": 0, "struct_bad": [], "union_bad": []}
    try:
        for seq in seqs:
            for align in (False, True):
                ks = [kinds[n_] for n_ in seq]
                fields = [Sym(f"field{i}", {"_name": f"f{i}", "name": f"f{i}", "type": type_of(n_, k), "bits": k.get("bits"), "offset": k.get("offset"),
                                           "alignment": k["align"]}) for i, (n_, k) in enumerate(zip(seq, ks))]
                want = _ref_struct_layout(ks, align)
                try:
                    r = Evaluator(env, steps=20000).call_user(UserFunc(sfi.node), [Sym("cls"), fields, align], {})
                    got: Any = (r[0], r[1], [f.attrs["offset"] for f in fields])
                except Raised as e:
                    got = "raise" if str(e).startswith("ValueError(") or "Straddled" in str(e) else f"raise {e}"
                except ArithmeticError as e:
                    got = f"{type(e).__name__}: {e}"
                out["cases"] += 1
                if got != want and len(out["struct_bad"]) < 5:
                    out["struct_bad"].append((seq, "aligned" if align else "packed", got, want))
                elif isinstance(got, tuple):
                    # a second commit sees the offsets the first one recorded on the fields: the layout must come out the same (size, alignment, offsets)
                    try:
                        r2 = Evaluator(env, steps=20000).call_user(UserFunc(sfi.node), [Sym("cls"), fields, align], {})
                        got2: Any = (r2[0], r2[1], [f.attrs["offset"] for f in fields])
                    except Raised as e:
                        got2 = f"raise {e}"
                    except ArithmeticError as e:
                        got2 = f"{type(e).__name__}: {e}"
                    out["cases"] += 1
                    if got2 != got and len(out["struct_bad"]) < 5:
                        out["struct_bad"].append((seq, ("aligned" if align else "packed") + ", calculated a second time on the same fields (a later commit)", got2, got))
                # union: size of the largest member (None when one is dynamic), rounded up to the largest alignment in aligned mode
                if not any(k.get("bits") or k.get("offset") is not None for k in ks):
                    fields = [Sym(f"field{i}", {"_name": f"f{i}", "type": type_of(n_, k), "bits": None, "offset": None, "alignment": k["align"]})
                              for i, (n_, k) in enumerate(zip(seq, ks))]
                    sizes = [k["size"] for k in ks]
                    usize: int | None = None if any(s is None for s in sizes) else max(sizes, default=0)
                    ualign = max([k["align"] for k in ks], default=0)
                    if align and usize is not None:
                        usize += -usize & (ualign - 1)
                    try:
                        ur: Any = tuple(Evaluator(env, steps=20000).call_user(UserFunc(ufi.node), [Sym("cls"), fields, align], {}))
                    except ArithmeticError as e:
                        ur = f"{type(e).__name__}: {e}"
                    out["cases"] += 1
                    if ur != (usize, ualign) and len(out["union_bad"]) < 5:
                        out["union_bad"].append((seq, "aligned" if align else "packed", ur, (usize, ualign)))
        return out
    except Refused:
        return None
    except (TypeError, KeyError, IndexError, ValueError, AttributeError):
        return None


def fold_base_array(repo: Repo) -> dict | None:
    """BaseArray._read / _write over the count kinds: how many elements are requested from the element type, and which writes are refused."""
    from .codecfold import _module_constant

    rd = repo.func("types/base.py", "BaseArray._read")
    wr = repo.func("types/base.py", "BaseArray._write")
    out: dict = {"cases": 0, "read_bad": [], "write_bad": []}
    try:
        eof = _module_constant(repo, "types/base.py", "EOF", {})
        expr_cls = Sym("Expression")

        def isinst(o, k):
            if k is int:
                return isinstance(o, int) and not isinstance(o, bool)
            if k == expr_cls:
                return isinstance(o, Sym) and o.label.startswith("expr:")
            raise Refused("isinstance against an unknown class")

        def expression(text: str, value):
            def evaluate(context=None):
                if isinstance(value, Exception):
                    raise value
                return value
            return Sym(f"expr:{text}", {"expression": text}, {"evaluate": Host(evaluate)})

        reads = {
            "x[3]": ({"num_entries": 3, "null_terminated": False, "dynamic": False}, ("_read_array", 3)),
            "x[0]": ({"num_entries": 0, "null_terminated": False, "dynamic": False}, ("_read_array", 0)),
            "x[-2] (count from a constant expression)": ({"num_entries": -2, "null_terminated": False, "dynamic": False}, ("_read_array", 0)),
            "x[]": ({"num_entries": None, "null_terminated": True, "dynamic": True}, ("_read_0", None)),
            "x[n] with n = 5": ({"num_entries": expression("n", 5), "null_terminated": False, "dynamic": True}, ("_read_array", 5)),
            "x[n] with n = 0": ({"num_entries": expression("n", 0), "null_terminated": False, "dynamic": True}, ("_read_array", 0)),
            "x[n - 4] with n = 1": ({"num_entries": expression("n - 4", -3), "null_terminated": False, "dynamic": True}, ("_read_array", 0)),
            "x[EOF]": ({"num_entries": expression("EOF", ValueError("unknown name EOF")), "null_terminated": False, "dynamic": True}, ("_read_array", eof)),
            "x[m] with m unknown": ({"num_entries": expression("m", ValueError("unknown name m")), "null_terminated": False, "dynamic": True}, "raise"),
        }
        env = module_env(repo, "types/base.py", {"isinstance": Host(isinst), "Expression": expr_cls, "EOF": eof, "int": int})
        for label, (attrs, want) in reads.items():
            calls: list = []
            elem = Sym("elem", {}, {"_read_array": Host(lambda s, n, c=None, calls=calls: calls.append(("_read_array", n)) or ["<elements>"]),
                                    "_read_0": Host(lambda s, c=None, calls=calls: calls.append(("_read_0", None)) or ["<elements>"])})
            cls = Sym("arr", {"type": elem, **attrs})
            try:
                Evaluator(env, steps=2000).call_user(UserFunc(rd.node), [cls, Sym("stream"), {"n": 1}], {})
                got: Any = calls[0] if len(calls) == 1 else calls
            except (Raised, ValueError):
                got = "raise"
            out["cases"] += 1
            if got != want:
                out["read_bad"].append((label, got, want))
        writes = {
            "x[3] given 3 elements": ({"num_entries": 3, "null_terminated": False, "dynamic": False}, [1, 2, 3], "_write_array"),
            "x[3] given 2 elements": ({"num_entries": 3, "null_terminated": False, "dynamic": False}, [1, 2], "raise"),
            "x[3] given no elements": ({"num_entries": 3, "null_terminated": False, "dynamic": False}, [], "raise"),
            "x[3] given 4 elements": ({"num_entries": 3, "null_terminated": False, "dynamic": False}, [1, 2, 3, 4], "raise"),
            "x[1] given 2 elements": ({"num_entries": 1, "null_terminated": False, "dynamic": False}, [1, 2], "raise"),
            "x[0] given no elements": ({"num_entries": 0, "null_terminated": False, "dynamic": False}, [], "_write_array"),
            "x[n] given 4 elements": ({"num_entries": expression("n", 4), "null_terminated": False, "dynamic": True}, [1, 2, 3, 4], "_write_array"),
            "x[] given 2 elements": ({"num_entries": None, "null_terminated": True, "dynamic": True}, [1, 2], "_write_0"),
        }
        for label, (attrs, data, want) in writes.items():
            calls = []
            elem = Sym("elem", {}, {"_write_array": Host(lambda s, d, calls=calls: calls.append(("_write_array", list(d))) or len(d)),
                                    "_write_0": Host(lambda s, d, calls=calls: calls.append(("_write_0", list(d))) or len(d) + 1)})
            cls = Sym("arr", {"type": elem, **attrs})
            try:
                Evaluator(env, steps=2000).call_user(UserFunc(wr.node), [cls, Sym("stream"), list(data)], {})
                got = calls[0] if len(calls) == 1 else calls
            except Raised:
                got = "raise"
            out["cases"] += 1
            ok = got == "raise" if want == "raise" else (isinstance(got, tuple) and got == (want, list(data)))
            if not ok:
                out["write_bad"].append((label, got, want))
        # two dimensions: the rows are written through the slots the Array family resolves to (class and metaclass MRO), so an override that
        # handles all rows at once is interpreted too: every row is checked against the inner dimension
        slots = repo.slot_table().get("Array") or {}
        if all(slots.get(k_) is not None for k_ in ("_write", "_write_array")):
            nested = {
                "x[2][3] given rows of 3 and 3": ([[1, 2, 3], [4, 5, 6]], "ok"),
                "x[2][3] given rows of 2 and 4 (the right total)": ([[1, 2], [3, 4, 5, 6]], "raise"),
                "x[2][3] given rows of 4 and 3": ([[1, 2, 3, 4], [5, 6, 7]], "raise"),
                "x[2][3] given one row": ([[1, 2, 3]], "raise"),
            }
            for label, (data, want) in nested.items():
                calls = []
                elem = Sym("elem", {"size": 2}, {"_write_array": Host(lambda s, d, calls=calls: calls.append(list(d)) or len(d)),
                                                 "_write": Host(lambda s, d, calls=calls: calls.append([d]) or 1)})
                inner = Sym("row", {"type": elem, "num_entries": 3, "null_terminated": False, "dynamic": False, "size": 6},
                            {k_: UserFunc(f_.node) for k_, f_ in slots.items() if f_ is not None and k_.startswith("_write")})
                outer = Sym("arr", {"type": inner, "num_entries": 2, "null_terminated": False, "dynamic": False, "size": 12})
                env2 = dict(env)
                env2.update({"sum": sum, "len": len, "list": list, "chain": Sym("chain", {}, {"from_iterable": Host(lambda it: [x for r_ in it for x in r_])}),
                             "MetaType": Sym("MetaType", {}, {k_: UserFunc(f_.node) for k_, f_ in (("_write_array", repo.func_opt("types/base.py", "MetaType._write_array")),) if f_})})
                try:
                    Evaluator(env2, steps=4000).call_user(UserFunc(wr.node), [outer, Sym("stream"), data], {})
                    got = "ok" if [x for c_ in calls for x in c_] == [x for r_ in data for x in r_] else f"wrote {calls}"
                except Raised:
                    got = "raise"
                out["cases"] += 1
                if got != want:
                    out["write_bad"].append((label, got, want))
        return out
    except Refused:
        return None
    except (TypeError, KeyError, IndexError, AttributeError):
        return None


def fold_union_call(repo: Repo) -> dict | None:
    """UnionMetaType.__call__ over the kinds of argument: a union that was parsed (from bytes, bytearray, memoryview or a stream) keeps the parsed
    buffer; only values given by the user rebuild it from the first given member; a default-constructed union is proxified."""
    fi = repo.func("types/structure.py", "UnionMetaType.__call__")
    import itertools

    stream = Sym("stream", {}, {"read": Host(lambda n=-1: b"")})
    cases = {
        "bytes": ((b"\x01\x02\x03\x04",), {}, "parsed"),
        "a bytearray": ((bytearray(b"\x01\x02\x03\x04"),), {}, "parsed"),
        "a memoryview": ((memoryview(b"\x01\x02\x03\x04"),), {}, "parsed"),
        "a stream": ((stream,), {}, "parsed"),
        "a positional value": ((5,), {}, "rebuild:a"),
        "two positional values": ((5, 6), {}, "rebuild:a"),
        "a keyword value": ((), {"b": 7}, "rebuild:b"),
        "nothing": ((), {}, "proxify"),
    }
    out: dict = {"cases": 0, "bad": []}
    try:
        for label, (args, kwargs, want) in cases.items():
            trace: list = []
            obj = Sym("union-object", {}, {"_rebuild": Host(lambda name, trace=trace: trace.append(f"rebuild:{name}")),
                                           "_proxify": Host(lambda trace=trace: trace.append("proxify"))})
            fields = [Sym("fa", {"_name": "a", "name": "a"}), Sym("fb", {"_name": "b", "name": "b"})]
            cls = Sym("U", {"__fields__": fields, "lookup": {"a": fields[0], "b": fields[1]}, "dynamic": False})

            def isinst(o, k):
                ks = k if isinstance(k, tuple) else (k,)
                if all(x in (bytes, bytearray, memoryview, int, str) for x in ks):
                    return isinstance(o, ks)
                raise Refused("isinstance against a non-builtin")

            env = {"super": Host(lambda obj=obj: Sym("super", {}, {"__call__": Host(lambda *a, **k: obj)})), "isinstance": Host(isinst),
                   "hasattr": Host(lambda o, n: isinstance(o, Sym) and (n in o.attrs or n in o.methods)), "bytearray": bytearray, "memoryview": memoryview,
                   "chain": Host(lambda *its: list(itertools.chain(*its))), "next": Host(lambda it, *d: next(iter(it), *d)),
                   **{q: UserFunc(f.node) for q, f in repo.module("types/base.py").functions.items() if "." not in q}}
            Evaluator(env, steps=4000).call_user(UserFunc(fi.node), [cls, *args], dict(kwargs))
            out["cases"] += 1
            got = trace[0] if len(trace) == 1 else ("parsed" if not trace else trace)
            if got != want:
                out["bad"].append((label, got, want))
        return out
    except Refused:
        return None
    except (TypeError, KeyError, IndexError, ValueError, AttributeError):
        return None


def fold_is_eof(repo: Repo) -> dict | None:
    """_is_eof(stream): True exactly at the end of the stream, and the stream is where it was in both cases."""
    fi = repo.func_opt("types/base.py", "_is_eof")
    if fi is None:
        return None
    from .codecfold import Stream

    out: dict = {"cases": 0, "bad": []}
    try:
        for data, pos in ((b"", 0), (b"abc", 3), (b"abc", 0), (b"abc", 2), (b"x" * 9, 8)):
            st = Stream(data)
            st.pos = pos
            r = Evaluator({}, steps=500).call_user(UserFunc(fi.node), [st.sym()], {})
            out["cases"] += 1
            want = pos >= len(data)
            if r is not want or st.pos != pos:
                out["bad"].append((len(data), pos, r, st.pos))
        return out
    except Refused:
        return None
    except Raised as e:
        out["bad"].append(("raised", str(e), None, None))
        return out


def fold_generic_read_array(repo: Repo) -> dict | None:
    """MetaType._read_array (the slot every type without its own bulk reader inherits) over (stream length, start, count): a counted read asks the
    element reader count times; the EOF mode reads whole elements until the stream is exhausted, hands the context on, and leaves the stream at its
    end - the end-of-stream probe consumes nothing."""
    from .codecfold import Stream, _module_constant

    fi = repo.func("types/base.py", "MetaType._read_array")
    out: dict = {"cases": 0, "bad": []}
    try:
        eof = _module_constant(repo, "types/base.py", "EOF", {})
        env = {q: UserFunc(f.node) for q, f in repo.module("types/base.py").functions.items() if "." not in q}
        env["EOF"] = eof
        for total, start, count in ((0, 0, eof), (2, 0, eof), (6, 0, eof), (6, 2, eof), (8, 8, eof), (6, 0, 2), (6, 2, 0), (4, 0, 2)):
            data = bytes(range(1, total + 1))
            st = Stream(data)
            st.pos = start
            ctxs: list = []

            def read(stream, context=None, st=st, ctxs=ctxs):
                raw = st.data[st.pos:st.pos + 2]
                if len(raw) != 2:
                    raise EOFError("short")
                st.pos += 2
                ctxs.append(context)
                return bytes(raw)

            cls = Sym("T", {"size": 2}, {"_read": Host(read)})
            ctx = {"n": 1}
            try:
                got: Any = Evaluator(env, steps=4000).call_user(UserFunc(fi.node), [cls, st.sym(), count, ctx], {})
                got = list(got)
            except (Raised, EOFError) as e:
                got = f"raise {e}"
            n = (total - start) // 2 if count == eof else count
            want = [data[start + 2 * i:start + 2 * i + 2] for i in range(n)]
            out["cases"] += 1
            if got != want or st.pos != start + 2 * n or any(c is not ctx for c in ctxs):
                out["bad"].append((total, start, "EOF" if count == eof else count, got if isinstance(got, str) else [bytes(x).hex() for x in got], st.pos,
                                   "context dropped" if any(c is not ctx for c in ctxs) else ""))
        return out
    except Refused:
        return None
    except (TypeError, KeyError, IndexError, ValueError, AttributeError):
        return None


def fold_generic_write_array(repo: Repo) -> dict | None:
    """MetaType._write_array / _write_0 (the slots every type without its own bulk writer inherits) on a model element type: every element - and for
    the null-terminated form the type's default as terminator - is written by the element writer, in order, *on the caller's stream* at the
    position the previous element left it (an element that pads to an absolute alignment must see the real position); the caller's list is left as
    it was; the byte count is the sum of what the element writer reports."""
    wa = repo.func_opt("types/base.py", "MetaType._write_array")
    w0 = repo.func_opt("types/base.py", "MetaType._write_0")
    if wa is None or w0 is None:
        return None
    out: dict = {"cases": 0, "bad": []}
    try:
        base_env = {q: UserFunc(f.node) for q, f in repo.module("types/base.py").functions.items() if "." not in q}
        for slot, fi in (("_write_array", wa), ("_write_0", w0)):
            for start, entries in ((0, []), (0, ["e1"]), (3, ["e1", "e2", "e3"]), (5, ["e1", "e2"])):
                log: list = []
                pos = [start]

                def raw_write(b, log=log, pos=pos):
                    if len(b):
                        log.append(("raw", pos[0], bytes(b)))
                    pos[0] += len(b)
                    return len(b)

                stream = Sym("caller's stream", {}, {"write": Host(raw_write), "tell": Host(lambda pos=pos: pos[0])})

                def elem_write(st, entry, log=log, pos=pos, stream=stream):
                    # an element pads to a multiple of 4 of the absolute position, then takes 2 bytes
                    pad = -pos[0] % 4 if st is stream else 0
                    log.append(("elem", st is stream, pos[0] if st is stream else None, entry))
                    if st is stream:
                        pos[0] += pad + 2
                    return pad + 2

                def dumps(entry, log=log):
                    log.append(("dumps", entry))
                    return b"\x00\x00"

                methods = {"_write": Host(elem_write), "dumps": Host(dumps), "__default__": Host(lambda: "<default>")}
                cls = Sym("T", {"size": 2}, methods)
                methods["_write_array"] = Host(lambda st, arr, cls=cls: Evaluator(dict(base_env), steps=4000).call_user(UserFunc(wa.node), [cls, st, arr], {}))
                given = list(entries)
                try:
                    got = Evaluator(dict(base_env), steps=4000).call_user(UserFunc(fi.node), [cls, stream, given], {})
                except Raised as e:
                    got = f"raise {e}"
                want_entries = entries + (["<default>"] if slot == "_write_0" else [])
                want_log, p_, total = [], start, 0
                for e_ in want_entries:
                    want_log.append(("elem", True, p_, e_))
                    pad = -p_ % 4
                    p_ += pad + 2
                    total += pad + 2
                out["cases"] += 1
                if log != want_log or got != total or given != entries:
                    what = "the caller's list is changed" if given != entries else ("elements are not written by the element writer on the caller's stream, in order, "
                                                                                    "each at the position the previous one left" if log != want_log else f"returns {got!r}, expected {total}")
                    out["bad"].append((slot, f"{len(entries)} entries at position {start}", what, f"calls {log[:4]}"))
        return out
    except Refused:
        return None
    except (TypeError, KeyError, IndexError, ValueError, AttributeError):
        return None


def fold_pointer_new(repo: Repo) -> dict | None:
    """Pointer.__new__ over (pointer width, address): the address is kept as given - also outside the range of the pointer's width and negative (pointer
    arithmetic is plain integer arithmetic on the address) - together with the stream and the context; nothing is dereferenced yet."""
    fi = repo.func_opt("types/pointer.py", "Pointer.__new__")
    if fi is None:
        return None
    out: dict = {"cases": 0, "bad": []}
    try:
        for size in (1, 2, 4, 8):
            for value in (0, 5, (1 << (8 * size)) - 1, 1 << (8 * size), (1 << (8 * size)) + 0x24, -1, 1 << 63, (1 << 64) + 7):
                made: list = []

                def int_new(c, v=0, made=made):
                    o = Sym("pointer-object", {"__int__": v, "__class__": c})
                    o.strict = False
                    made.append(o)
                    return o

                stream, ctx = Sym("the stream"), {"n": 1}
                cls = Sym("ptr-type", {"size": size, "type": Sym("target-type")})
                env = module_env(repo, "types/pointer.py", {"super": Host(lambda *a: Sym("super", {}, {"__new__": Host(int_new)})),
                                                            "int": Sym("int", {}, {"__new__": Host(int_new)})})
                try:
                    obj = Evaluator(env, steps=2000).call_user(UserFunc(fi.node, env), [cls, value, stream, ctx], {})
                except Raised as e:
                    out["bad"].append((size, value, f"raised {e}", "an object holding the address"))
                    continue
                out["cases"] += 1
                if not (isinstance(obj, Sym) and made and obj is made[0]):
                    out["bad"].append((size, value, "does not return the object int.__new__ made", ""))
                    continue
                got = (obj.attrs.get("__int__"), obj.attrs.get("_stream") is stream, obj.attrs.get("_context") is ctx, obj.attrs.get("_value", "<unset>"))
                if got != (value, True, True, None):
                    out["bad"].append((size, value, f"(address, stream kept, context kept, cached target) = {got}", f"({value}, True, True, None)"))
        return out
    except Refused:
        return None
    except (TypeError, KeyError, IndexError, ValueError, AttributeError):
        return None


def fold_input_predicates(repo: Repo) -> dict | None:
    """_is_buffer_type / _is_readable_type over kinds of input: exactly bytes, bytearray and memoryview are buffers; anything with read() is a
    stream - also when it exports a buffer as well (an mmap): the two call forms T(x) and T.read(x) test the predicates in different orders, so an
    object that answers yes to both is parsed from its current position by one and from byte 0 by the other."""
    out: dict = {"cases": 0, "bad": []}
    buf = repo.func_opt("types/base.py", "_is_buffer_type")
    rdb = repo.func_opt("types/base.py", "_is_readable_type")
    if buf is None or rdb is None:
        return None
    mm = Sym("mmap-like", {"exports_buffer": True}, {"read": Host(lambda n=-1: b""), "seek": Host(lambda *a: 0), "tell": Host(lambda: 0)})
    arr = Sym("array-like", {"exports_buffer": True})
    stream = Sym("stream", {}, {"read": Host(lambda n=-1: b"")})

    def mview(x):
        if isinstance(x, (bytes, bytearray, memoryview)):
            return memoryview(x)
        if isinstance(x, Sym) and x.attrs.get("exports_buffer"):
            return Sym("view", {}, {"release": Host(lambda: None)})
        raise TypeError("memoryview: a bytes-like object is required")

    mv_host = Host(mview)

    def isinst(o, k):
        ks = tuple(memoryview if x is mv_host else x for x in (k if isinstance(k, tuple) else (k,)))
        if all(x in (bytes, bytearray, memoryview, int, str, list) for x in ks):
            return isinstance(o, ks)
        raise Refused("isinstance against a non-builtin")

    env = {"isinstance": Host(isinst), "hasattr": Host(lambda o, n: isinstance(o, Sym) and n in o.methods), "memoryview": mv_host, "bytes": bytes,
           "bytearray": bytearray, "callable": Host(lambda x: isinstance(x, (tuple, Host))), "getattr": Host(lambda o, n, *d: ("symmethod", o, n) if isinstance(o, Sym) and n in o.methods else (d[0] if d else None))}
    cases = [("bytes", b"ab", True, False), ("a bytearray", bytearray(b"ab"), True, False), ("a memoryview", memoryview(b"ab"), True, False), ("a stream", stream, False, True),
             ("an int", 5, False, False), ("a str", "ab", False, False), ("a list of ints", [1, 2], False, False), ("an mmap (stream that also exports a buffer)", mm, False, True)]
    try:
        for label, v, want_buf, want_read in cases:
            for fi, want, what in ((buf, want_buf, "_is_buffer_type"), (rdb, want_read, "_is_readable_type")):
                try:
                    got = bool(Evaluator(env, steps=500).call_user(UserFunc(fi.node), [v], {}))
                except Raised as e:
                    got = f"raise {e}"
                out["cases"] += 1
                if got != want:
                    out["bad"].append((what, label, got, want))
        return out
    except Refused:
        return None
    except (TypeError, KeyError, IndexError, ValueError, AttributeError):
        return None


def fold_union_proxies(repo: Repo) -> dict | None:
    """Union._proxify and UnionProxy.__setattr__ on a model union value: after proxifying, every structure-typed member at any depth - the
    anonymous member included - is a proxy that names the top-level member it belongs to; assigning through a proxy sets the attribute on the
    proxy's own target, rebuilds the union through that top-level member, and writes nothing else on the union."""
    px = repo.func_opt("types/structure.py", "Union._proxify")
    ps = repo.func_opt("types/structure.py", "UnionProxy.__setattr__")
    if px is None or ps is None:
        return None
    out: dict = {"cases": 0, "bad": []}
    struct_cls = Sym("class:Structure")
    made: list = []

    def tsym(name, is_struct, fields=None):
        t = Sym(f"type:{name}", {"__name__": name, "is_struct": is_struct})
        if fields is not None:
            t.attrs["__fields__"] = [Sym(f"field:{name}.{n}", {"_name": n, "name": None if n.startswith("__anon") else n, "type": ft}) for n, ft in fields]
            folded = {}
            for f in t.attrs["__fields__"]:
                if f.attrs["name"] is None and f.attrs["type"].attrs.get("is_struct"):
                    folded.update(f.attrs["type"].attrs["fields"])
                else:
                    folded[f.attrs["_name"]] = f
            t.attrs["fields"] = folded
            t.attrs["lookup"] = {f.attrs["_name"]: f for f in t.attrs["__fields__"]}
        return t

    u8 = tsym("uint8", False)
    pos_t = tsym("pos", True, [("y", u8)])
    origin_t = tsym("origin", True, [("x", u8), ("y", u8), ("pos", pos_t)])
    hdr_t = tsym("hdr", True, [("kind", u8), ("origin", origin_t)])
    anon_t = tsym("__anonymous_0__", True, [("lo", u8), ("hi", u8)])
    q_t = tsym("q", True, [("z", u8)])
    alt_t = tsym("alt", True, [("b", u8), ("q", q_t)])
    alt_t.attrs["is_union"] = True  # a nested union member: a Structure subclass as well, whose own structure member it has proxied itself
    union_t = tsym("U", True, [("__anonymous_0__", anon_t), ("hdr", hdr_t), ("word", u8), ("alt", alt_t)])

    def value(t, **attrs):
        v = Sym(f"value:{t.attrs['__name__']}", {"__class__": t, **attrs})
        v.strict = False
        return v

    union_cls = Sym("class:Union")

    def issub(t, k):
        if isinstance(k, tuple):
            return any(issub(t, k_) for k_ in k)
        if k is struct_cls:
            return isinstance(t, Sym) and bool(t.attrs.get("is_struct"))
        if k is union_cls:
            return isinstance(t, Sym) and bool(t.attrs.get("is_union"))
        raise Refused("issubclass against an unknown class")

    def getattr_(o, n, *d):
        if isinstance(o, Sym) and n in o.attrs:
            return o.attrs[n]
        if d:
            return d[0]
        raise AttributeError(n)

    proxy_cls = Sym("class:UnionProxy")
    proxy_cls.strict = False  # the real class has no field tables: reading one raises AttributeError

    def proxy(union, attr, target):
        p_ = Sym(f"proxy#{len(made)}", {"__union__": union, "__attr__": attr, "__target__": target, "__class__": proxy_cls})
        made.append(p_)
        return p_

    proxy_host = Host(proxy)

    def isinst(o, k):
        ks = k if isinstance(k, tuple) else (k,)
        return any(k_ is proxy_host and isinstance(o, Sym) and o.label.startswith("proxy#") for k_ in ks)

    try:
        pos = value(pos_t, y=7)
        origin = value(origin_t, x=1, y=2, pos=pos)
        hdr = value(hdr_t, kind=3, origin=origin)
        anon = value(anon_t, lo=4, hi=5)
        qv = value(q_t, z=8)
        alt = value(alt_t, b=6)
        inner_proxy = Sym("proxy#inner", {"__union__": alt, "__attr__": "q", "__target__": qv, "__class__": proxy_cls})
        alt.attrs["q"] = inner_proxy
        u = value(union_t, **{"__anonymous_0__": anon, "hdr": hdr, "word": 9, "lo": 4, "hi": 5, "alt": alt})
        env = {"issubclass": Host(issub), "Structure": struct_cls, "Union": union_cls, "getattr": Host(getattr_), "UnionProxy": proxy_host,
               "object": Sym("object", {}, {"__setattr__": Host(lambda o, n, v: o.attrs.__setitem__(n, v))}), "isinstance": Host(isinst)}
        for q, f in repo.module("types/structure.py").functions.items():
            if "." not in q and q not in env:
                env[q] = UserFunc(f.node, env)
        try:
            Evaluator(env, steps=4000).call_user(UserFunc(px.node, env), [u], {})
        except AttributeError as e:
            if "UnionProxy" not in str(e):
                raise
            out["bad"].append(("proxify", "the structure member of a nested union (already wrapped in the nested union's own proxy)", f"walked as if it were a structure: {e}",
                               "taken over from the inner proxy (a union that holds a union with a structure member cannot be parsed otherwise)"))
            return out
        out["cases"] += 1

        def is_proxy(v, attr, target):
            return isinstance(v, Sym) and v.label.startswith("proxy#") and v.attrs["__union__"] is u and v.attrs["__attr__"] == attr and v.attrs["__target__"] is target

        for holder, name, attr, target in ((u, "__anonymous_0__", "__anonymous_0__", anon), (u, "hdr", "hdr", hdr), (hdr, "origin", "hdr", origin), (origin, "pos", "hdr", pos), (u, "alt", "alt", alt), (alt, "q", "alt", qv)):
            if not is_proxy(holder.attrs.get(name), attr, target):
                got = holder.attrs.get(name)
                out["bad"].append(("proxify", f"member '{name}' of {holder.label}", f"{got.label if isinstance(got, Sym) else got!r}"
                                   + (f" (union member '{got.attrs.get('__attr__')}')" if isinstance(got, Sym) and got.label.startswith("proxy#") else ""),
                                   f"a proxy for the union member '{attr}'"))
        if isinstance(u.attrs.get("word"), Sym) or isinstance(u.attrs.get("lo"), Sym):
            out["bad"].append(("proxify", "scalar members", "wrapped in a proxy", "left as they are"))
        # assignment through the proxy of a structure nested two levels deep
        log: list = []
        u2 = Sym("union", {"hdr": "<the union's hdr member>"}, {"_rebuild": Host(lambda a: log.append(("rebuild", a)))})
        u2.strict = False
        tgt = Sym("target:origin", {"y": 2})
        pr = Sym("proxy", {"__union__": u2, "__attr__": "hdr", "__target__": tgt})
        env2 = {"setattr": Host(lambda o, n, v: o.attrs.__setitem__(n, v)), "getattr": Host(getattr_),
                "object": Sym("object", {}, {"__setattr__": Host(lambda o, n, v: (log.append(("store", o.label, n)), o.attrs.__setitem__(n, v))[0])})}
        Evaluator(env2, steps=1000).call_user(UserFunc(ps.node, env2), [pr, "y", 9], {})
        out["cases"] += 1
        if tgt.attrs.get("y") != 9 or [e for e in log if e[0] == "rebuild"] != [("rebuild", "hdr")] or u2.attrs.get("hdr") != "<the union's hdr member>" or \
                any(e[0] == "store" and e[1] == "union" for e in log):
            out["bad"].append(("assignment through a proxy", "origin.y = 9 (two levels inside member 'hdr')", f"target {tgt.attrs}, log {log}, union.hdr {u2.attrs.get('hdr')!r}",
                               "the target's attribute set, one rebuild through 'hdr', the union's own member untouched"))
        return out
    except Refused:
        return None
    except Raised as e:
        out["bad"].append(("proxies", "model union", f"raised {e}", "no error"))
        return out
    except (TypeError, KeyError, IndexError, ValueError, AttributeError):
        return None


def fold_array_count(repo: Repo) -> dict | None:
    """Parser._array_count over (size text, earlier fields, constants): a size that names an earlier field (as a whole token) stays an expression for
    read time, also when a constant of that name exists; everything else that the expression evaluator can evaluate becomes a number, with C literal
    rules (a leading 0 is octal); what cannot be evaluated stays an expression."""
    import re as _re

    fi = repo.func_opt("parser.py", "Parser._array_count")
    if fi is None:
        return None
    out: dict = {"cases": 0, "bad": []}

    def c_int(tok: str):
        t = tok.rstrip("uUlL")
        if _re.fullmatch(r"0[xX][0-9a-fA-F]+", t):
            return int(t, 16)
        if _re.fullmatch(r"0[bB][01]+", t):
            return int(t, 2)
        if _re.fullmatch(r"0[0-7]+", t):
            return int(t, 8)
        if _re.fullmatch(r"[0-9]+", t):
            return int(t)
        return None

    cases = [
        # (size text, earlier field names, constants, expected: number | "expr")
        ("4", [], {}, 4), ("010", [], {}, 8), ("0x10", ["x"], {}, 16), ("0017", ["a"], {}, 15), ("n", ["n"], {}, "expr"), ("n", ["n"], {"n": 2}, "expr"), ("n * 2", ["n"], {}, "expr"),
        ("max_len", ["len"], {"max_len": 6}, 6), ("COUNT", ["x"], {"COUNT": 3}, 3), ("COUNT * 2 + 1", [], {"COUNT": 3}, 7), ("unknown", ["x"], {}, "expr"), ("EOF", [], {}, "expr"),
        ("len", [], {"len": 5}, 5), ("0", ["a"], {}, 0), ("tag", ["t", "ta"], {"tag": 9}, 9),
    ]
    try:
        for text, fields, consts, want in cases:
            toks = _re.findall(r"[A-Za-z_][A-Za-z0-9_]*|0[xX][0-9a-fA-F]+|[0-9]+[uUlL]*|<<|>>|\S", text)

            def evaluate(context=None, toks=toks, consts=consts):
                src = []
                for t in toks:
                    ci = c_int(t)
                    if ci is not None:
                        src.append(str(ci))
                    elif _re.fullmatch(r"[A-Za-z_]\w*", t):
                        if context and t in context:
                            src.append(str(context[t]))
                        elif t in consts:
                            src.append(str(consts[t]))
                        else:
                            raise Raised(f"ExpressionParserError('unknown name {t}')")
                    elif t in "+-*/()%&|^~" or t in ("<<", ">>"):
                        src.append("//" if t == "/" else t)
                    else:
                        raise Raised("ExpressionTokenizerError('bad token')")
                return int(eval(compile(ast.parse(" ".join(src), mode="eval"), "<size>", "eval"), {"__builtins__": {}}, {}))  # the checker's own arithmetic on its own numbers

            def expression(cs_, text_, toks=toks, evaluate=evaluate):
                return Sym(f"expr:{text_}", {"tokens": list(toks), "expression": text_}, {"evaluate": Host(evaluate)})

            fsyms = [Sym(f"field:{n}", {"_name": n, "name": n}) for n in fields]
            parser = Sym("parser", {"cstruct": Sym("cs", {"consts": dict(consts)})})
            env = {"Expression": Host(expression), "any": any, "isinstance": Host(lambda o, k: False), "__exc_parents__": repo_exception_parents(repo)}
            try:
                got: Any = Evaluator(env, steps=3000).call_user(UserFunc(fi.node), [parser, text, fsyms], {})
            except Raised as e:
                got = f"raise {e}"
            out["cases"] += 1
            kind = "expr" if isinstance(got, Sym) and got.label.startswith("expr:") else got
            if kind != want:
                out["bad"].append((text, fields, consts, kind, want))
        return out
    except Refused:
        return None
    except (TypeError, KeyError, IndexError, ValueError, AttributeError, SyntaxError):
        return None


def fold_union_rebuild(repo: Repo) -> dict | None:
    """Union._rebuild(attr) on model unions: the member's encoding replaces exactly the bytes at the member's offset in the current buffer (all zeros
    when there is none yet), the rest of the buffer stays, the members are re-read and re-proxified afterwards; a member value of None is written as
    the type's default."""
    fi = repo.func_opt("types/structure.py", "Union._rebuild")
    if fi is None:
        return None
    out: dict = {"cases": 0, "bad": []}

    def bytes_io(initial=b""):
        buf = bytearray(initial)
        st = {"pos": 0}

        def write(b):
            b = bytes(b)
            end = st["pos"] + len(b)
            if end > len(buf):
                buf.extend(b"\x00" * (end - len(buf)))
            buf[st["pos"]:end] = b
            st["pos"] = end
            return len(b)

        def seek(p, whence=0):
            st["pos"] = p if whence == 0 else (st["pos"] + p if whence == 1 else len(buf) + p)
            return st["pos"]

        return Sym("BytesIO", {}, {"write": Host(write), "seek": Host(seek), "tell": Host(lambda: st["pos"]), "getvalue": Host(lambda: bytes(buf)),
                                   "read": Host(lambda n=-1: bytes(buf[st["pos"]:] if n is None or n < 0 else buf[st["pos"]:st["pos"] + n]))})

    try:
        for label, old, offset, value, enc, want in (
            ("member at offset 0", b"\x11\x22\x33\x44", 0, 0xBEEF, b"\xef\xbe", b"\xef\xbe\x33\x44"),
            ("member at offset 2", b"\x11\x22\x33\x44", 2, 0xBEEF, b"\xef\xbe", b"\x11\x22\xef\xbe"),
            ("member at offset None", b"\x11\x22\x33\x44", None, 0xBEEF, b"\xef\xbe", b"\xef\xbe\x33\x44"),
            ("no buffer yet", None, 2, 0xBEEF, b"\xef\xbe", b"\x00\x00\xef\xbe"),
            ("a member that is None", b"\x11\x22\x33\x44", 0, None, b"\x00\x00", b"\x00\x00\x33\x44"),
            ("a member that is 0", b"\x11\x22\x33\x44", 0, 0, b"\x00\x00", b"\x00\x00\x33\x44"),
        ):
            log: list = []

            def w(stream, v, enc=enc, log=log):
                log.append(("write", v))
                return stream.methods["write"].fn(enc)

            ftype = Sym("uint16", {"size": 2}, {"_write": Host(w), "__default__": Host(lambda: 0), "dumps": Host(lambda v, enc=enc: enc)})
            field = Sym("field:m", {"offset": offset, "type": ftype, "_name": "m", "name": "m"})
            ucls = Sym("U", {"size": 4, "lookup": {"m": field}, "fields": {"m": field}, "__fields__": [field], "dynamic": False})
            stored: dict = {}
            self_ = Sym("u", {"__class__": ucls, "m": value}, {"_update": Host(lambda log=log: log.append(("update",))), "_proxify": Host(lambda log=log: log.append(("proxify",)))})
            if old is not None:
                self_.attrs["_buf"] = old
            self_.strict = False

            def getattr_(o, n, *d):
                if isinstance(o, Sym) and n in o.attrs:
                    return o.attrs[n]
                if d:
                    return d[0]
                raise AttributeError(n)

            env = {"io": Sym("io", {}, {"BytesIO": Host(bytes_io)}), "BytesIO": Host(bytes_io), "getattr": Host(getattr_), "bytes": bytes, "len": len,
                   "object": Sym("object", {}, {"__setattr__": Host(lambda o, n, v: o.attrs.__setitem__(n, v))}), "setattr": Host(lambda o, n, v: o.attrs.__setitem__(n, v))}
            try:
                Evaluator(env, steps=3000).call_user(UserFunc(fi.node), [self_, "m"], {})
                got: Any = self_.attrs.get("_buf")
            except Raised as e:
                got = f"raise {e}"
            out["cases"] += 1
            order = [e[0] for e in log]
            if got != want or order[:1] != ["write"] or "update" not in order or "proxify" not in order or order.index("update") > order.index("proxify"):
                out["bad"].append((label, got.hex() if isinstance(got, bytes) else got, want.hex(), order))
        return out
    except Refused:
        return None
    except (TypeError, KeyError, IndexError, ValueError, AttributeError):
        return None


def fold_len(repo: Repo) -> dict | None:
    """MetaType.__len__: the size for a fixed-size type, TypeError for a dynamic one."""
    fi = repo.func("types/base.py", "MetaType.__len__")
    base = Sym("BaseType")
    out: dict = {"cases": 0, "bad": []}
    try:
        for label, cls, want in (("fixed size 12", Sym("T", {"size": 12, "dynamic": False}), 12), ("size 0", Sym("Z", {"size": 0, "dynamic": False}), 0),
                                 ("dynamic", Sym("D", {"size": None, "dynamic": True}), "TypeError"), ("the BaseType placeholder itself", base, 0)):
            try:
                got: Any = Evaluator({"BaseType": base}, steps=200).call_user(UserFunc(fi.node), [cls], {})
            except Raised as e:
                got = str(e).split("(")[0].split(":")[0]
            out["cases"] += 1
            if got != want:
                out["bad"].append((label, got, want))
        return out
    except Refused:
        return None


class _Ptr(Sym):
    """A pointer value: compares with integers by its address."""

    def __init__(self, addr: int, attrs: dict):
        super().__init__(f"ptr@{addr}", attrs)
        self.addr = addr

    def __eq__(self, other: object) -> bool:
        if isinstance(other, int) and not isinstance(other, bool):
            return self.addr == other
        return other is self

    __hash__ = Sym.__hash__


def fold_dereference(repo: Repo) -> dict | None:
    """Pointer.dereference over the target kinds: reads the target at the absolute address through the remembered stream, restores the stream
    position, caches the value (a second call does not touch the stream), char targets are NUL-terminated strings, void / null / stream-less
    pointers do not read."""
    fi = repo.func("types/pointer.py", "Pointer.dereference")
    void, char = Sym("Void"), Sym("Char")
    out: dict = {"cases": 0, "bad": []}
    try:
        methods = {n_: UserFunc(f_.node) for n_, f_ in repo.cls("Pointer").methods.items() if n_ != "dereference"}
        for label, kind, addr, has_stream, start, value in (
                ("struct target", "other", 6, True, 40, "<value>"), ("char target", "char", 6, True, 40, "<value>"), ("void target", "void", 6, True, 40, None),
                ("null pointer", "other", 0, True, 40, None), ("no stream", "other", 6, False, 40, None),
                ("stream already at the address", "other", 6, True, 6, "<value>"), ("target value 0 (falsy)", "other", 6, True, 40, 0),
                ("empty string target (falsy)", "char", 6, True, 40, b"")):
            log: list = []
            state = {"pos": start}

            def seek(p, whence=0, state=state, log=log):
                state["pos"] = int(getattr(p, "addr", p)) if whence == 0 else state["pos"] + int(p)
                log.append(("seek", state["pos"]))

            stream = Sym("stream", {}, {"tell": Host(lambda state=state: state["pos"]), "seek": Host(seek)})

            def reader(name, log=log, state=state):
                def _r(s, ctx=None, value=value):
                    log.append((name, state["pos"], s is stream, ctx))
                    state["pos"] += 5
                    return value
                return Host(_r)

            target = Sym("target", {"kind": kind}, {"_read": reader("_read"), "_read_0": reader("_read_0")})
            ptr = _Ptr(addr, {"_value": None, "_stream": stream if has_stream else None, "_context": "<ctx>", "type": target})
            ptr.methods.update(methods)

            def issub(t, k):
                if k is void:
                    return t.attrs["kind"] == "void"
                if k is char:
                    return t.attrs["kind"] == "char"
                raise Refused("issubclass against another class")

            env = {"issubclass": Host(issub), "Void": void, "Char": char}
            results = []
            for _ in range(2):
                try:
                    results.append(Evaluator(env, steps=500).call_user(UserFunc(fi.node), [ptr], {}))
                except Raised as e:
                    results.append("raise " + str(e).split("(")[0])
            out["cases"] += 1
            reads = [x for x in log if x[0] != "seek"]
            if addr == 0 or not has_stream:
                want_results, want_reads = ["raise NullPointerDereference"] * 2, []
            elif kind == "void":
                want_results, want_reads = [None, None], []
            else:
                slot = "_read_0" if kind == "char" else "_read"
                want_results = [value] * 2
                want_reads = [(slot, 6, True, "<ctx>")]  # read once, at the address, through the remembered stream; the second call uses the cache
            if results != want_results or reads != want_reads or state["pos"] != start:
                out["bad"].append((label, results, reads, state["pos"], want_results, want_reads, start))
        return out
    except Refused:
        return None
    except (TypeError, KeyError, IndexError, ValueError, AttributeError):
        return None


def fold_union_write(repo: Repo) -> dict | None:
    """UnionMetaType._write over member lists: the bytes written are a full image of the union - a member as large as the union is encoded (an
    anonymous structure included, when nothing regular is as large), then zero padding up to len(union)."""
    fi = repo.func("types/structure.py", "UnionMetaType._write")
    struct_meta = Sym("StructureMetaType")
    out: dict = {"cases": 0, "bad": []}
    layouts = {
        "uint32 / uint16": [("a", 4, False), ("b", 2, False)],
        "uint16 / uint32": [("a", 2, False), ("b", 4, False)],
        "anonymous struct of 2 / uint32": [(None, 2, True), ("v", 4, False)],
        "anonymous struct of 4 / uint32": [(None, 4, True), ("v", 4, False)],
        "anonymous struct of 3 / uint16": [(None, 3, True), ("v", 2, False)],
        "only an anonymous struct of 3": [(None, 3, True)],
        "uint16 / uint16 in a union padded to 4": [("a", 2, False), ("b", 2, False)],
        "uint8[8] / a structure of 8 with padding": [("raw", 8, False), ("p", 8, False)],
    }
    try:
        for label, members in layouts.items():
            size = max(m[1] for m in members)
            if "padded to 4" in label:
                size = 4
            from .codecfold import Stream

            st = Stream(b"")
            st.pos = 10
            st.written = bytearray(b"\xee" * 10)
            log: list = []

            def mk(name, n, anon):
                def w(stream, value, name=name, n=n):
                    st.written += bytes([0x40 + len(log)]) * n
                    st.pos += n
                    log.append((name or "<anonymous struct>", n))
                    return n
                return Sym(f"type:{name}", {"size": n, "is_struct": anon}, {"_write": Host(w)})

            fields = [Sym(f"f{i}", {"_name": nm or f"__anon{i}__", "name": nm, "type": mk(nm, n, anon)}) for i, (nm, n, anon) in enumerate(members)]
            ssym = st.sym()

            def wwrite(b):
                b = bytes(b)
                st.written += b
                st.pos += len(b)
                return len(b)
            ssym.methods["write"] = Host(wwrite)
            cls = Sym("U", {"__fields__": fields, "dynamic": False, "size": size})
            env = {q_: UserFunc(f_.node) for q_, f_ in repo.module("types/structure.py").functions.items() if "." not in q_}
            env.update({"isinstance": Host(lambda o, k: k is struct_meta and isinstance(o, Sym) and bool(o.attrs.get("is_struct"))), "StructureMetaType": struct_meta,
                        "len": Host(lambda o: o.attrs["size"] if isinstance(o, Sym) else len(o)), "getattr": Host(lambda o, n, *d: "<value>")})
            ev_ = Evaluator(env, steps=4000)
            try:
                ev_.call_user(UserFunc(fi.node), [cls, ssym, Sym("data")], {})
            except Raised as e:
                out["bad"].append((label, f"raised {e}", ""))
                continue
            out["cases"] += 1
            written = bytes(st.written[10:])
            first = log[0] if log else None
            if len(written) != size or first is None or first[1] != max(m[1] for m in members) or any(b != 0 for b in written[first[1]:]) or len(log) != 1:
                out["bad"].append((label, f"wrote members {log}, {len(written)} bytes in all", f"one member of {max(m[1] for m in members)} bytes then zero padding up to {size}"))
            elif first[0] != "<anonymous struct>" and first[0] != next(nm for nm, n, _a in members if nm is not None and n == first[1]):
                # among equally large members the first declared carries the bytes (a later one may be a structure with holes)
                out["bad"].append((label, f"dumped through member '{first[0]}'", "through the first declared member of that size"))
            elif first[0] == "<anonymous struct>" and any(nm is not None and n >= first[1] for nm, n, _a in members):
                # a structure has holes (padding, unused bits of a unit) that a scalar of the same size does not: on a tie the regular member carries the bytes
                out["bad"].append((label, "dumped through the anonymous structure", "through the regular member of the same size (the structure may have holes the member does not)"))
        return out
    except Refused:
        return None
    except (TypeError, KeyError, IndexError, ValueError, AttributeError):
        return None


class _FalsySym(Sym):
    """A type object that is falsy (len(T) == 0: void, an empty structure) - truthiness must never stand in for 'is registered'."""

    def __bool__(self) -> bool:
        return False


def fold_add_type(repo: Repo) -> dict | None:
    """cstruct.add_type over (name known?, same target?, replace?): a name is never silently re-bound to another type."""
    fi = repo.func("cstruct.py", "cstruct.add_type")
    t1, t2, t0 = Sym("type-one"), Sym("type-two"), _FalsySym("zero-sized-type")
    out: dict = {"cases": 0, "bad": []}
    try:
        for label, existing, new, replace, want in (
                ("a zero-sized (falsy) type registered, another type", t0, t2, False, "ValueError"), ("a zero-sized (falsy) type again", t0, t0, False, "stored"),
                ("new name", None, t1, False, "stored"), ("same type again", t1, t1, False, "stored"), ("another type, replace=False", t1, t2, False, "ValueError"),
                ("another type, replace=True", t1, t2, True, "stored"), ("alias string to the same type", "one", t1, False, "stored"),
                ("alias string to another type", "one", t2, False, "ValueError")):
            typedefs: dict = {"one": t1}
            if existing is not None:
                typedefs["x"] = existing
            typedefs["later"] = "one"
            order_before = list(typedefs)

            def resolve(n, typedefs=typedefs):
                while isinstance(n, str):
                    n = typedefs[n]
                return n

            cs = Sym("cs", {"typedefs": typedefs}, {"resolve": Host(resolve)})
            args = [cs, "x", new] + ([True] if replace else [])
            try:
                Evaluator({}, steps=500).call_user(UserFunc(fi.node), args, {})
                got = "stored" if typedefs.get("x") is new else f"not stored ({typedefs.get('x')})"
                # the table keeps the order of first definition (a name registered again stays where it was; a new one goes to the end)
                want_order = order_before if existing is not None else [*order_before, "x"]
                if got == "stored" and list(typedefs) != want_order:
                    got = f"stored, but the table order is now {list(typedefs)} (order of first definition: {want_order})"
            except Raised as e:
                got = str(e).split("(")[0].split(":")[0]
            out["cases"] += 1
            if got != want:
                out["bad"].append((label, got, want))
        return out
    except Refused:
        return None
    except (TypeError, KeyError, IndexError, ValueError, AttributeError):
        return None


@disk_cached('updatefields', ('types/structure.py',))
def fold_update_fields(repo: Repo) -> dict | None:
    """StructureMetaType._update_fields over (kind of class, compiled?, field list): the class dict it returns holds every derived attribute,
    computed from the *new* field list; the reader is recompiled only after the offsets were calculated, with the class's alignment mode, and a
    failing recompilation falls back to the interpreted reader."""
    fi = repo.func("types/structure.py", "StructureMetaType._update_fields")
    calc = repo.func("types/structure.py", "StructureMetaType._calculate_size_and_offsets")
    out: dict = {"cases": 0, "bad": []}
    struct_meta, union_meta, type_marker = Sym("StructureMetaType"), Sym("UnionMetaType"), Sym("type")

    def field(name, size, anon_members=None):
        t_attrs: dict[str, Any] = {"size": size, "alignment": size or 1}
        if anon_members is not None:
            t_attrs["is_struct"] = True
            t_attrs["fields"] = {m: Sym(f"member:{m}", {"name": m, "_name": m}) for m in anon_members}
        return Sym(f"field:{name}", {"_name": name if anon_members is None else f"__{name}__", "name": name if anon_members is None else None,
                                     "type": Sym(f"type:{name}", t_attrs), "bits": None, "offset": None, "alignment": size or 1})

    lists = {
        "two scalars": lambda: [field("a", 1), field("b", 4)],
        "scalar, anonymous struct {x, y}, scalar": lambda: [field("a", 1), field("anon", 2, ["x", "y"]), field("b", 4)],
        "two anonymous structs {x, y} and {p, q}": lambda: [field("anon", 2, ["x", "y"]), field("anon2", 2, ["p", "q"]), field("b", 4)],
        "two '_' members": lambda: [field("_", 1), field("_", 1), field("c", 2)],
        "duplicate name": lambda: [field("a", 1), field("a", 4)],
        "no fields": lambda: [],
    }
    try:
        for kind in ("metaclass (class creation)", "structure class (commit)", "union class (commit)", "union metaclass (class creation)"):
            for compiled in ((False,) if "metaclass" in kind else (False, True, "fails")):
                for label, make in lists.items():
                    fields = make()
                    events: list = []
                    is_union = "union" in kind
                    is_meta = "metaclass" in kind

                    def calc_host(*a, fields=fields, events=events):
                        args = [x for x in a if not (isinstance(x, Sym) and x.label.startswith("cls"))]
                        fl, al = args[0], args[1] if len(args) > 1 else False
                        off = 0
                        for f in fl:
                            f.attrs["offset"] = off
                            off += f.attrs["type"].attrs["size"]
                        events.append(("offsets", fl is fields, al))
                        return (off, 4)

                    def compile_read(fl, name=None, align=None, fields=fields, events=events):
                        events.append(("compile", fl is fields, [f.attrs["offset"] for f in fl], align))
                        if compiled == "fails":
                            raise Raised("TypeError('unsupported')")
                        return "<compiled reader>"

                    # the class as the previous commit left it: nothing of that state may flow into the new class dict
                    stale = Sym("field:stale", {"_name": "stale", "name": "stale", "type": Sym("type:stale", {"size": 64, "alignment": 64}), "bits": None, "offset": 0,
                                                "alignment": 64})
                    previous = {} if is_meta else {"size": 99, "alignment": 64, "dynamic": True, "fields": {"stale": stale}, "lookup": {"stale": stale},
                                                   "__fields__": [stale]}
                    cls = Sym("cls:S", {"__compiled__": bool(compiled), "__align__": "<the class's align flag>", "cs": Sym("cs"), "__name__": "S", "kind": kind,
                                        **previous}, {"_calculate_size_and_offsets": Host(calc_host)})

                    def issub(c, k):
                        if k is type_marker:
                            return is_meta
                        if k is union_meta:
                            return is_meta and is_union
                        raise Refused("issubclass against another class")

                    def isinst(o, k):
                        if k is union_meta:
                            return (not is_meta) and is_union and o is cls
                        if k is struct_meta:
                            return isinstance(o, Sym) and bool(o.attrs.get("is_struct"))
                        raise Refused("isinstance against another class")

                    def sym_getattr(o, n, *d):
                        if isinstance(o, Sym) and n in o.attrs:
                            return o.attrs[n]
                        if d:
                            return d[0]
                        raise Raised(f"AttributeError({n!r})")

                    def sym_setattr(o, n, v):
                        if not isinstance(o, Sym):
                            raise Refused("setattr on a non-symbolic object")
                        o.attrs[n] = v

                    def attrgetter_(*paths):
                        def get(o, path):
                            for part in path.split("."):
                                o = sym_getattr(o, part)
                            return o
                        return Host(lambda o: get(o, paths[0]) if len(paths) == 1 else tuple(get(o, p_) for p_ in paths))

                    gen = {n: Host(lambda names, n=n: (n, list(names))) for n in ("_generate__bool__", "_generate__eq__", "_generate__hash__")}
                    gen.update({n: Host(lambda fl, n=n: (n, [f.attrs["_name"] for f in fl])) for n in ("_generate_structure__init__", "_generate_union__init__")})
                    compiler = Sym("compiler", {}, {"Compiler": Host(lambda cs: Sym("Compiler", {}, {"compile_read": Host(compile_read)}))})
                    env = {**{q: UserFunc(f_.node) for q, f_ in fi.module.functions.items() if "." not in q and not q.startswith(("_generate", "_make", "_codegen", "_patch"))},
                           "issubclass": Host(issub), "isinstance": Host(isinst), "type": type_marker, "UnionMetaType": union_meta, "StructureMetaType": struct_meta,
                           "Union": Sym("Union", {"__eq__": "<Union.__eq__>"}), "Structure": Sym("Structure", {"_read": Sym("read", {"__func__": "<Structure._read>"})}),
                           "classmethod": Host(lambda f: ("classmethod", f)), "property": Host(lambda g_, s_: ("property", g_, s_)),
                           "attrgetter": Host(attrgetter_), "getattr": Host(sym_getattr), "setattr": Host(sym_setattr), "__imports__": {"compiler": compiler}, **gen}
                    out["cases"] += 1
                    case = f"{kind}, compiled={compiled}, {label}"
                    try:
                        ev_ = Evaluator(env, steps=8000)
                        cd = ev_.call_user(UserFunc(fi.node), [cls, fields, "<align argument>"], {})
                    except Raised as e:
                        if label == "duplicate name" and str(e).startswith("ValueError"):
                            continue
                        out["bad"].append((case, f"raised {e}", "a class dict"))
                        continue
                    if label == "duplicate name":
                        out["bad"].append((case, "accepted", "ValueError for the duplicate field name"))
                        continue
                    folded = [m for f in fields for m in (list(f.attrs["type"].attrs["fields"]) if f.attrs["type"].attrs.get("is_struct") else [f.attrs["_name"]])]
                    folded = list(dict.fromkeys(folded))
                    raw = list(dict.fromkeys(f.attrs["_name"] for f in fields))
                    want = {
                        "fields": folded, "lookup": raw, "__fields__": "same list", "__bool__": ("_generate__bool__", folded), "__hash__": ("_generate__hash__", folded),
                        "__eq__": "<Union.__eq__>" if is_union else ("_generate__eq__", folded),
                        "__init__": ("_generate_union__init__" if is_union else "_generate_structure__init__", raw),
                        "size": sum(f.attrs["type"].attrs["size"] for f in fields), "alignment": 4, "dynamic": False,
                    }
                    got = {k: cd.get(k, "<missing>") for k in want}
                    got["fields"] = list(got["fields"]) if isinstance(got["fields"], dict) else got["fields"]
                    got["lookup"] = list(got["lookup"]) if isinstance(got["lookup"], dict) else got["lookup"]
                    got["__fields__"] = "same list" if cd.get("__fields__") is fields else "another object"
                    if compiled:
                        want["_read"] = "<compiled reader>" if compiled is True else ("classmethod", "<Structure._read>")
                        want["__compiled__"] = compiled is True
                        got["_read"], got["__compiled__"] = cd.get("_read", "<missing>"), cd.get("__compiled__", "<missing>")
                    diff = {k: (got[k], want[k]) for k in want if got[k] != want[k]}
                    if diff:
                        out["bad"].append((case, f"class dict differs (got, expected): {diff}", ""))
                        continue
                    for f in fields:
                        if f.attrs["type"].attrs.get("is_struct") and not all(m in cd for m in f.attrs["type"].attrs["fields"]):
                            out["bad"].append((case, "no accessor properties for the members of the anonymous structure", ""))
                    # the accessor properties, called on a model instance: each reads and writes its own member of its own anonymous structure
                    anon = [f for f in fields if f.attrs["type"].attrs.get("is_struct")]
                    if anon and all(m in cd for f in anon for m in f.attrs["type"].attrs["fields"]):
                        def instance():
                            k = iter(range(10, 100))
                            return Sym("instance", {f.attrs["_name"]: Sym(f"value:{f.attrs['_name']}", {m: next(k) for m in f.attrs["type"].attrs["fields"]}) for f in anon})

                        def apply(fn, *a):
                            if isinstance(fn, UserFunc):
                                return ev_.call_user(fn, list(a), {})
                            if isinstance(fn, Host):
                                return fn.fn(*a)
                            if callable(fn) and type(fn).__name__ == "LambdaFn":
                                return fn(*a)
                            raise Refused("accessor is not a function of the fragment")

                        for f in anon:
                            for m in f.attrs["type"].attrs["fields"]:
                                prop = cd[m]
                                if not (isinstance(prop, tuple) and len(prop) == 3 and prop[0] == "property"):
                                    out["bad"].append((case, f"accessor for '{m}' is not a property with a getter and a setter", ""))
                                    continue
                                inst = instance()
                                want_v = inst.attrs[f.attrs["_name"]].attrs[m]
                                got_v = apply(prop[1], inst)
                                if got_v != want_v:
                                    out["bad"].append((case, f"accessor '{m}' of the anonymous member {f.attrs['_name']} reads {got_v!r}", f"{want_v!r}"))
                                before = {a_: dict(v_.attrs) for a_, v_ in inst.attrs.items()}
                                apply(prop[2], inst, 777)
                                after = {a_: dict(v_.attrs) if isinstance(v_, Sym) else v_ for a_, v_ in inst.attrs.items()}
                                before[f.attrs["_name"]][m] = 777
                                if after != before:
                                    out["bad"].append((case, f"assigning '{m}' (a member of the anonymous structure {f.attrs['_name']}) on the parent leaves {after}",
                                                       f"{before}: the assignment is lost or lands in another member"))
                    offs = [e for e in events if e[0] == "offsets"]
                    comp = [e for e in events if e[0] == "compile"]
                    if len(offs) != 1 or not offs[0][1] or offs[0][2] != "<align argument>":
                        out["bad"].append((case, f"offset calculation calls: {offs}", "exactly one, with the new field list and the align argument"))
                    if compiled and (len(comp) != 1 or not comp[0][1] or any(o is None for o in comp[0][2]) or comp[0][3] != "<the class's align flag>"
                                     or events.index(comp[0]) < events.index(offs[0])):
                        out["bad"].append((case, f"recompilation: {comp} (events {[(e[0]) for e in events]})",
                                           "once, with the new field list, after the offsets were calculated, with align=cls.__align__"))
                    if not compiled and comp:
                        out["bad"].append((case, "a structure that was not compiled is compiled by an update", ""))
        return out
    except Refused:
        return None
    except (TypeError, KeyError, IndexError, ValueError, AttributeError):
        return None
