"""Collecting obligations, deciding the exit status, writing evidence, matching known findings."""

from __future__ import annotations

import json
import os
import time
from dataclasses import dataclass, field

from . import VERIF_ROOT
from .util import AnalysisError

KNOWN_FINDINGS = os.path.join(VERIF_ROOT, "known_findings.json")

ASSUMPTIONS = [
    "CPython 3.12 semantics of ast, compile (never exec), struct, int.to_bytes/from_bytes, enum, functools.lru_cache, io.BytesIO",
    "the checker's receiver-typing and object-kind tables (frozen in csa/callgraph.py, each entry with a reason; structural reasons are re-validated on every run)",
    "the call graph over-approximates dynamic dispatch by protocol-slot name; calls it cannot type are resolved by name and counted",
    "user-defined type classes and user-supplied stream objects are outside the analysed program",
    "each rule decides the named structural clause (a necessary condition of the property), not the behavioural property as a whole",
]


@dataclass
class Item:
    rule: str
    construct: str  # stable key: module:qualname:normalised text  (never a line number)
    ok: bool
    detail: str
    loc: str = ""
    nontrivial: bool = True


@dataclass
class Report:
    prop: str
    tier: str
    items: list[Item] = field(default_factory=list)
    floors: list[dict] = field(default_factory=list)
    info: dict = field(default_factory=dict)
    notes: list[str] = field(default_factory=list)
    rules_desc: dict[str, str] = field(default_factory=dict)
    t0: float = field(default_factory=time.time)

    # ---- recording
    def rule(self, rid: str, desc: str) -> None:
        self.rules_desc[rid] = desc

    def ok(self, rule: str, construct: str, detail: str = "", loc: str = "", nontrivial: bool = True) -> None:
        self.items.append(Item(rule, construct, True, detail, loc, nontrivial))

    def fail(self, rule: str, construct: str, detail: str, loc: str = "") -> None:
        self.items.append(Item(rule, construct, False, detail, loc, True))

    def check(self, cond: bool, rule: str, construct: str, detail_ok: str, detail_fail: str, loc: str = "") -> bool:
        if cond:
            self.ok(rule, construct, detail_ok, loc)
        else:
            self.fail(rule, construct, detail_fail, loc)
        return cond

    def floor(self, rule: str, what: str, found: int, floor: int) -> None:
        """Instances discovered must not fall below a hand-confirmed floor: a vanished anchor is never a pass.

        ``floor`` is the count confirmed on the pinned tree.  The enforced bound keeps slack for behaviour-preserving refactorings
        (helpers that merge call sites): 60 % of the confirmed count once that count is 5 or more.  Floors are enforced after all
        rules ran (``enforce_floors``) so that a violation which *explains* a shortfall is reported as a violation, not as a
        broken checker.
        """
        import math

        eff = floor if floor < 5 else max(3, math.ceil(floor * 0.6))
        self.floors.append({"rule": rule, "what": what, "found": found, "confirmed_on_pinned_tree": floor, "floor": eff})

    def enforce_floors(self) -> None:
        for f in self.floors:
            if f["found"] < f["floor"]:
                if any((not i.ok) and i.rule == f["rule"] for i in self.items):
                    self.notes.append(f"{f['rule']}: {f['found']} {f['what']} (< floor {f['floor']}); a violation of the rule is reported")
                    continue
                if any(not i.ok for i in self.items):
                    # another rule of this property reports a violation: the edit that removed these instances is reported through it; if every
                    # reported violation turns out to be a listed known finding the run still ends as an analysis error (see __main__.run_check)
                    msg = f"{f['rule']}: only {f['found']} {f['what']} discovered, floor is {f['floor']} (anchor vanished or matcher rotted)"
                    self.notes.append(msg + "; violations of other rules are reported")
                    self.info.setdefault("aborted", msg)
                    continue
                raise AnalysisError(f"{f['rule']}: only {f['found']} {f['what']} discovered, floor is {f['floor']} (anchor vanished or matcher rotted)")

    def note(self, msg: str) -> None:
        self.notes.append(msg)

    # ---- outcome
    @property
    def failures(self) -> list[Item]:
        return [i for i in self.items if not i.ok]


def load_known() -> dict:
    if not os.path.exists(KNOWN_FINDINGS):
        return {"open": [], "fixed": []}
    with open(KNOWN_FINDINGS, encoding="utf-8") as fh:
        return json.load(fh)


def match_known(prop: str, item: Item, known: dict) -> dict | None:
    """An open finding suppresses exactly the (rule, construct) pairs it lists - nothing wider."""
    for k in known.get("open", []):
        for m in k.get("matches", []):
            if m["rule"] == item.rule and m["construct"] == item.construct:
                return k
    return None


def finish(rep: Report, seed: int = 0) -> int:
    """Print the verdict, write evidence (+ violations replay file), return the exit status."""
    known = load_known()
    ev_dir = os.environ.get("CSA_EVIDENCE_DIR") or os.path.join(VERIF_ROOT, "evidence")
    os.makedirs(ev_dir, exist_ok=True)
    viol_path = os.path.join(ev_dir, f"{rep.prop}.violations.json")

    new_fail: list[Item] = []
    known_hits: list[tuple[Item, dict]] = []
    for it in rep.failures:
        k = match_known(rep.prop, it, known)
        if k is not None:
            known_hits.append((it, k))
        else:
            new_fail.append(it)

    by_id: dict[str, list] = {}
    for it, k in known_hits:
        by_id.setdefault(k["id"], []).append((it, k))
    for fid, hits in by_id.items():
        rules = sorted({it.rule for it, _ in hits})
        print(f"KNOWN-FINDING: property={rep.prop} {fid} ({', '.join(rules)}; {len(hits)} listed construct(s)) {hits[0][1]['what']}")

    n_ok = sum(1 for i in rep.items if i.ok)
    n_all = len(rep.items)
    distinct = len({(i.rule, i.construct) for i in rep.items if i.nontrivial})
    by_rule: dict[str, dict] = {}
    for i in rep.items:
        d = by_rule.setdefault(i.rule, {"instances": 0, "discharged": 0, "desc": rep.rules_desc.get(i.rule, "")})
        d["instances"] += 1
        d["discharged"] += int(i.ok)
    samples = []
    seen_rules: dict[str, int] = {}
    for i in rep.items:
        if seen_rules.get(i.rule, 0) >= 3:
            continue
        seen_rules[i.rule] = seen_rules.get(i.rule, 0) + 1
        samples.append({"rule": i.rule, "construct": i.construct, "loc": i.loc, "ok": i.ok, "detail": i.detail})
    for it in rep.failures:
        s = {"rule": it.rule, "construct": it.construct, "loc": it.loc, "ok": False, "detail": it.detail}
        if s not in samples:
            samples.append(s)

    wall = time.time() - rep.t0
    evidence = {
        "property_id": rep.prop,
        "tier": rep.tier,
        "seed": seed,
        "level": "other",
        "coverage": {
            "explanation": (
                "Static analysis of /repo/dissect/cstruct as it is on disk for this run (AST, hand-built CFG with dominators, "
                "resolved call graph, literal tables, harvested code templates, compile()-only bytecode inspection; nothing "
                "from the repository is imported or executed). Each rule below is a structural necessary condition of the "
                "property; an obligation is one discovered instance of a rule (a call site, guard, table entry, template, "
                "function) and it is discharged when the instance satisfies the rule. Instance counts are compared with "
                "hand-confirmed floors so a rule cannot pass vacuously."
            ),
            "obligations": n_all,
            "discharged": n_ok,
            "evaluations": n_all,
            "distinct_nontrivial": distinct,
            "rule": "one case = one (rule, construct) instance discovered in the current source; non-trivial = the instance "
            "required evaluating the rule's condition on real code (floor/anchor bookkeeping is not counted); distinct = "
            "distinct (rule, construct-key) pairs",
            "samples": samples,
            "rules": by_rule,
            "floors": rep.floors,
            "known_findings_reported": [
                {"id": k["id"], "rule": it.rule, "construct": it.construct, "what": k["what"]} for it, k in known_hits
            ],
            "exhaustive": True,
            **rep.info,
        },
        "assumptions": ASSUMPTIONS + rep.notes,
        "wall_s": round(wall, 3),
        "violations": len(new_fail),
    }
    with open(os.path.join(ev_dir, f"{rep.prop}.json"), "w", encoding="utf-8") as fh:
        json.dump(evidence, fh, indent=1, sort_keys=False, default=str)
        fh.write("\n")

    print(
        f"[csa] property={rep.prop} tier={rep.tier} obligations={n_all} discharged={n_ok} "
        f"known-findings={len(known_hits)} new-violations={len(new_fail)} wall={wall:.2f}s"
    )
    for rid, d in by_rule.items():
        print(f"[csa]   {rid}: {d['discharged']}/{d['instances']}  {d['desc']}")

    if new_fail:
        with open(viol_path, "w", encoding="utf-8") as fh:
            json.dump(
                {
                    "property": rep.prop,
                    "violations": [
                        {"rule": i.rule, "rule_desc": rep.rules_desc.get(i.rule, ""), "construct": i.construct, "loc": i.loc, "detail": i.detail}
                        for i in new_fail
                    ],
                },
                fh,
                indent=1,
            )
            fh.write("\n")
        for i in new_fail:
            print(f"[csa] FAIL {i.rule} at {i.loc}: {i.construct}\n[csa]      {i.detail}")
        print(f"VIOLATION property={rep.prop} replay={viol_path}")
        return 1
    if os.path.exists(viol_path):
        os.remove(viol_path)
    return 0
