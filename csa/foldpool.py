"""Shared plumbing of the bounded folds that enumerate many cases: a fork pool over chunks of the case list and a result cache keyed by the digest
of the consulted repository sources and of the checker's own code (an accelerator only: nothing is reused across different contents; disable with
CSA_FOLD_CACHE=0; the registered commands need nothing that lives there)."""

from __future__ import annotations

import glob
import hashlib
import json
import multiprocessing as mp
import os
import tempfile
from typing import Any, Callable

from .model import Repo

_WORK: dict[str, Any] = {}


def cache_file(repo: Repo, name: str, rels: tuple[str, ...], params: Any) -> str | None:
    where = os.environ.get("CSA_FOLD_CACHE", "")
    if where == "0":
        return None
    hsh = hashlib.sha256()
    for rel in rels:
        hsh.update(repo.module(rel).source.encode())
    for f in sorted(glob.glob(os.path.join(os.path.dirname(__file__), "*.py"))):
        with open(f, "rb") as fh:
            hsh.update(fh.read())
    hsh.update(repr(params).encode())
    base = where or os.path.join(tempfile.gettempdir(), f"csa_fold_cache_{os.getuid()}")
    return os.path.join(base, f"{name}_{hsh.hexdigest()[:24]}.json")


def cached(repo: Repo, name: str, rels: tuple[str, ...], params: Any, compute: Callable[[], Any]) -> Any:
    cf = cache_file(repo, name, rels, params)
    if cf and os.path.exists(cf):
        try:
            with open(cf) as fh:
                got = json.load(fh)
            if isinstance(got, dict):
                got["from_cache"] = True
            return got
        except (OSError, ValueError):
            pass
    res = compute()
    if cf:
        try:
            os.makedirs(os.path.dirname(cf), exist_ok=True)
            tmp = f"{cf}.{os.getpid()}"
            with open(tmp, "w") as fh:
                json.dump(res, fh)
            os.replace(tmp, cf)
        except (OSError, TypeError):
            pass
    return res


def _worker(idx: int) -> Any:
    return _WORK["fn"](_WORK["chunks"][idx])


def pmap(fn: Callable[[list], Any], items: list, jobs: int | None = None, min_items: int = 64) -> list:
    """fn(chunk) for chunks of items, in a fork pool (serially inside a daemonic worker, e.g. the self-test pool)."""
    jobs = jobs if jobs is not None else int(os.environ.get("CSA_FOLD_JOBS", "0") or 0) or min(16, os.cpu_count() or 1)
    if mp.current_process().daemon:
        jobs = 1
    if jobs <= 1 or len(items) < min_items:
        return [fn(items)]
    n = jobs * 4
    _WORK.update({"fn": fn, "chunks": [items[i::n] for i in range(n)]})
    try:
        with mp.get_context("fork").Pool(jobs) as pool:
            return pool.map(_worker, range(n))
    finally:
        _WORK.clear()


def disk_cached(name: str, rels: tuple[str, ...]):
    """Decorator for fold functions ``f(repo, *params)``: the result is a function of the named repository modules (a trailing '/' names every module
    under that directory) and of the checker's own code."""
    import functools

    def deco(fn):
        @functools.wraps(fn)
        def wrapper(repo: Repo, *params, **kw):
            mods = []
            for r in rels:
                if r.endswith("/"):
                    mods += sorted(m for m in repo.modules if m.startswith(r))
                elif r in repo.modules:
                    mods.append(r)
            return cached(repo, name, tuple(mods), (params, sorted(kw.items())), lambda: fn(repo, *params, **kw))

        return wrapper

    return deco
