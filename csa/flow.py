"""Flow-sensitive provenance: does a value depend on ``<stream>.tell()`` taken in this call?"""

from __future__ import annotations

import ast

from .cfg import CFG, ReachingDefs
from .util import norm


class TellDerived:
    def __init__(self, g: CFG, rd: ReachingDefs, streams: set[str], mode: str = "all"):
        """mode 'all': every reaching definition must be derived; 'any': one suffices."""
        self.g, self.rd, self.streams, self.mode = g, rd, streams, mode

    def derived(self, node_id: int, e: ast.AST, seen: frozenset = frozenset()) -> bool:
        if isinstance(e, ast.Call) and isinstance(e.func, ast.Attribute) and e.func.attr == "tell" and norm(e.func.value) in self.streams:
            return True
        if isinstance(e, ast.Name):
            defs = self.rd.reaching(node_id, e.id)
            if not defs:
                return False
            results = []
            for nid, val in defs:
                if (e.id, nid) in seen:
                    results.append(True)  # loop-carried: decided by the other definitions
                    continue
                s2 = seen | {(e.id, nid)}
                if val is None:
                    results.append(False)
                elif isinstance(val, ast.AugAssign):
                    prev = self.derived(nid, ast.Name(id=e.id, ctx=ast.Load()), s2)
                    results.append(prev or (isinstance(val.op, (ast.Add, ast.Sub)) and self.derived(nid, val.value, s2)))
                else:
                    results.append(self.derived(nid, val, s2))
            return all(results) if self.mode == "all" else any(results)
        if isinstance(e, ast.BinOp) and isinstance(e.op, (ast.Add, ast.Sub)):
            return self.derived(node_id, e.left, seen) or self.derived(node_id, e.right, seen)
        if isinstance(e, ast.IfExp):
            return self.derived(node_id, e.body, seen) and self.derived(node_id, e.orelse, seen)
        if isinstance(e, ast.NamedExpr):
            return self.derived(node_id, e.value, seen)
        return False
