"""Flow-sensitive provenance: does a value depend on ``<stream>.tell()`` taken in this call?"""

from __future__ import annotations

import ast

from .cfg import CFG, ReachingDefs
from .util import norm


class TellDerived:
    def __init__(self, g: CFG, rd: ReachingDefs, streams: set[str], mode: str = "all"):
        """mode 'all': every reaching definition must be derived; 'any': one suffices."""
        self.g, self.rd, self.streams, self.mode = g, rd, streams, mode

    def derived(self, node_id: int, e: ast.AST, seen: frozenset = frozenset()) -> bool:
        if isinstance(e, ast.Call) and isinstance(e.func, ast.Attribute) and e.func.attr == "tell" and norm(e.func.value) in self.streams:
            return True
        if isinstance(e, ast.Name):
            defs = self.rd.reaching(node_id, e.id)
            if not defs:
                return False
            results = []
            for nid, val in defs:
                if (e.id, nid) in seen:
                    results.append(True)  # loop-carried: decided by the other definitions
                    continue
                s2 = seen | {(e.id, nid)}
                if val is None:
                    results.append(False)
                elif isinstance(val, ast.AugAssign):
                    prev = self.derived(nid, ast.Name(id=e.id, ctx=ast.Load()), s2)
                    results.append(prev or (isinstance(val.op, (ast.Add, ast.Sub)) and self.derived(nid, val.value, s2)))
                else:
                    results.append(self.derived(nid, val, s2))
            return all(results) if self.mode == "all" else any(results)
        if isinstance(e, ast.BinOp) and isinstance(e.op, (ast.Add, ast.Sub)):
            return self.derived(node_id, e.left, seen) or self.derived(node_id, e.right, seen)
        if isinstance(e, ast.IfExp):
            return self.derived(node_id, e.body, seen) and self.derived(node_id, e.orelse, seen)
        if isinstance(e, ast.NamedExpr):
            return self.derived(node_id, e.value, seen)
        return False


class BaseCount:
    """How many stream-position bases (``S.tell()`` of this call) an additive expression carries.

    ``S.tell()`` counts 1, constants and every non-additive sub-expression (pads, sizes, relative field offsets) count 0,
    ``a + b`` adds, ``a - b`` subtracts.  An absolute position in the caller's stream has count exactly 1;  a difference of two
    positions (count 0) is a *relative* quantity and must not be handed to an absolute seek.
    """

    def __init__(self, g: CFG, rd: ReachingDefs, streams: set[str]):
        self.g, self.rd, self.streams = g, rd, streams

    def counts(self, node_id: int, e: ast.AST, seen: frozenset = frozenset()) -> set[int]:
        if isinstance(e, ast.Call) and isinstance(e.func, ast.Attribute) and e.func.attr == "tell" and norm(e.func.value) in self.streams:
            return {1}
        if isinstance(e, ast.Name):
            defs = self.rd.reaching(node_id, e.id)
            if not defs:
                return {0}
            out: set[int] = set()
            for nid, val in defs:
                if (e.id, nid) in seen:
                    continue  # loop-carried: decided by the other definitions
                s2 = seen | {(e.id, nid)}
                if val is None:
                    out |= {0}
                elif isinstance(val, ast.AugAssign):
                    prev = self.counts(nid, ast.Name(id=e.id, ctx=ast.Load()), s2) or {0}
                    if isinstance(val.op, (ast.Add, ast.Sub)):
                        inc = self.counts(nid, val.value, s2) or {0}
                        sign = 1 if isinstance(val.op, ast.Add) else -1
                        out |= {p + sign * i for p in prev for i in inc}
                    else:
                        out |= {0}
                else:
                    out |= self.counts(nid, val, s2) or {0}
            return out
        if isinstance(e, ast.BinOp) and isinstance(e.op, (ast.Add, ast.Sub)):
            l = self.counts(node_id, e.left, seen) or {0}
            r = self.counts(node_id, e.right, seen) or {0}
            sign = 1 if isinstance(e.op, ast.Add) else -1
            return {a + sign * b for a in l for b in r}
        if isinstance(e, ast.IfExp):
            return (self.counts(node_id, e.body, seen) or {0}) | (self.counts(node_id, e.orelse, seen) or {0})
        if isinstance(e, ast.NamedExpr):
            return self.counts(node_id, e.value, seen)
        return {0}
