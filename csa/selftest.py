"""Validation of the checker itself, both directions.

* MUTANTS - small edits of /repo's sources (applied to a scratch copy, never to /repo) that still byte-compile;
  each must be reported by (at least one of) the named rule(s).
* REVERTS - the repository's own ``fix:`` commits reverse-applied: the rule that found the defect must fire again.
* TWINS   - behaviour-preserving rewrites (whole package re-emitted through ast.unparse, equivalent guards, renamed
  locals, extracted helpers): every claimed check must stay silent.

``python -m csa selftest`` is strict (exit 1 on any miss / false alarm).  The thorough tier of a property check runs
the mutants of that property as an *instance-sensitivity audit* and only records the result in the evidence.
"""

from __future__ import annotations

import ast
import os
import py_compile
import shutil
import subprocess
import sys
import tempfile
import time
from multiprocessing import Pool

from . import REPO_ROOT

PKG = "dissect/cstruct"

# (id, file, old, new, expected rule ids - at least one must report)
MUTANTS: list[tuple[str, str, str, str, list[str]]] = [
    # ---- C08
    ("c08-int-nocheck", "types/int.py", "        if len(data) != cls.size:\n            raise EOFError(f\"Read {len(data)} bytes, but expected {cls.size}\")\n\n", "", ["C08.R1"]),
    ("c08-int-wrongcmp", "types/int.py", "if len(data) != cls.size:", "if len(data) > cls.size:", ["C08.R1"]),
    ("c08-char0-nocheck", "types/char.py", "            if byte == b\"\":\n                raise EOFError(\"Read 0 bytes, but expected 1\")\n\n", "", ["C08.R1"]),
    ("c08-leb-valueerror", "types/leb128.py", "raise EOFError(\"EOF reached, while final LEB128 byte was not yet read\")", "raise ValueError(\"EOF reached, while final LEB128 byte was not yet read\")", ["C08.R1"]),
    ("c08-wchar-cond", "types/wchar.py", "if count != EOF and len(data) != count:", "if count == EOF and len(data) != count:", ["C08.R1"]),
    ("c08-packed0-len", "types/packed.py", "            if len(data) != cls.size:\n                raise EOFError(f\"Read {len(data)} bytes, but expected {cls.size}\")\n\n            if (value", "            if (value", ["C08.R1"]),
    ("c08-template-check", "compiler.py", "if len(buf) != {size}: raise EOFError()", "if len(buf) > {size}: raise EOFError()", ["C08.R1", "C03.R6"]),
    ("c08-union-noupdate", "types/structure.py", "        if cls.size is not None:\n            obj._update()\n", "", ["C08.R1"]),
    ("c08-swallow", "types/packed.py", "    def _read(cls, stream: BinaryIO, context: dict[str, Any] | None = None) -> Self:\n        return cls._read_array(stream, 1, context)[0]",
     "    def _read(cls, stream: BinaryIO, context: dict[str, Any] | None = None) -> Self:\n        try:\n            return cls._read_array(stream, 1, context)[0]\n        except Exception:\n            return cls.__new__(cls, 0)", ["C08.R2"]),
    # ---- C15 / C14 / C05
    ("c15-memo-on-class", "types/packed.py", "        return stream.write(_struct(cls.cs.endian, cls.packchar).pack(data))",
     "        if \"_fmt\" not in cls.__dict__:\n            cls._fmt = _struct(cls.cs.endian, cls.packchar)\n        return stream.write(cls._fmt.pack(data))", ["C15.R1", "C05.R1"]),
    ("c15-scratch-on-type", "types/base.py", "        if count == EOF:\n            result = []\n            while not _is_eof(stream):\n                result.append(cls._read(stream, context))\n            return result",
     "        if count == EOF:\n            cls._scratch = []\n            while not _is_eof(stream):\n                cls._scratch.append(cls._read(stream, context))\n            return cls._scratch", ["C15.R1", "C14.R5", "C08.R3"]),
    ("c15-expr-state", "expression.py", "        stack = []\n        queue = []\n        operators = set", "        stack = []\n        queue = self.queue = []\n        operators = set", ["C15.R1"]),
    ("c14-module-cache", "cstruct.py", "        return cast(type[Array], self._make_type(name, bases, size, alignment=type_.alignment, attrs=attrs))",
     "        key = (type_.__name__, str(num_entries))\n        if key not in _ARRAY_CACHE:\n            _ARRAY_CACHE[key] = cast(type[Array], self._make_type(name, bases, size, alignment=type_.alignment, attrs=attrs))\n        return _ARRAY_CACHE[key]", ["C14.R3"]),
    ("c14-replicate", "types/base.py", "[cls.type.__default__() for _ in range(cls.num_entries if isinstance(cls.num_entries, int) else 0)]",
     "[cls.type.__default__()] * (cls.num_entries if isinstance(cls.num_entries, int) else 0)", ["C14.R2"]),
    ("c05-template-endian", "compiler.py", "unpack = f'data = _struct(cls.cs.endian, \"{fmt}\").unpack(buf)\\n'", "unpack = f'data = _struct(\"{self.cs.endian}\", \"{fmt}\").unpack(buf)\\n'", ["C05.R1", "C03.R4"]),
    ("c05-bitbuffer-endian", "types/structure.py", "        bit_buffer = BitBuffer(stream, cls.cs.endian)\n        struct_start = stream.tell()\n\n        result = {}", "        bit_buffer = BitBuffer(stream, \"<\")\n        struct_start = stream.tell()\n\n        result = {}", ["C05.R1", "C01.R2"]),
    ("c05-wchar-map", "types/wchar.py", "\">\": \"utf-16-be\",", "\">\": \"utf-16-le\",", ["C05.R2"]),
    ("c05-leb-mask", "types/leb128.py", "result |= (b & 0x7F) << shift", "result |= (b & 0x3F) << shift", ["C05.R5"]),
    # ---- C03 / C16
    ("c03-except-typeerror", "compiler.py", "        except Exception as e:\n            # Silently ignore", "        except TypeError as e:\n            # Silently ignore", ["C03.R1"]),
    ("c03-no-sizes", "compiler.py", "            reads.append(f's[\"{field._name}\"] = {field_type.size}')\n", "", ["C03.R3"]),
    ("c03-stale-size", "compiler.py", "            structure.__compiled__ = True\n        except", "            structure.__compiled__ = True\n            structure.size = sum(f.type.size or 0 for f in structure.__fields__)\n        except", ["C03.R2"]),
    ("c16-template-noctx", "compiler.py", "parser = f\"_pt.__new__(_pt, {getter}, stream, r)\"", "parser = f\"_pt.__new__(_pt, {getter}, stream)\"", ["C16.R2", "C03.R7"]),
    ("c16-sub-add", "types/pointer.py", "int.__sub__(self, other), self._stream", "int.__add__(self, other), self._stream", ["C16.R3"]),
    ("c16-and-noctx", "types/pointer.py", "int.__and__(self, other), self._stream, self._context)", "int.__and__(self, other), self._stream, None)", ["C16.R3"]),
    ("c16-no-restore", "types/pointer.py", "            self._stream.seek(position)\n", "", ["C16.R4"]),
    ("c16-width", "cstruct.py", "            self.pointer.size,\n            alignment=self.pointer.alignment,", "            8,\n            alignment=self.pointer.alignment,", ["C16.R1", "C04.R2"]),
    # ---- C04
    ("c04-ushort", "cstruct.py", "\"USHORT\": \"uint16\"", "\"USHORT\": \"uint32\"", ["C04.R1"]),
    ("c04-int24-align", "cstruct.py", "\"int24\", 3, True, alignment=4", "\"int24\", 3, True, alignment=3", ["C04.R1"]),
    ("c04-uint64-signed", "cstruct.py", "self._make_packed_type(\"uint64\", \"Q\", int)", "self._make_packed_type(\"uint64\", \"q\", int)", ["C04.R1"]),
    ("c04-tail-fieldalign", "types/structure.py", "            offset += -offset & (alignment - 1)\n\n        # The structure size", "            offset += -offset & (field.alignment - 1)\n\n        # The structure size", ["C04.R3"]),
    ("c04-no-minus", "types/structure.py", "                offset += -offset & (field.alignment - 1)\n\n            # The alignment of this struct", "                offset += offset & (field.alignment - 1)\n\n            # The alignment of this struct", ["C04.R4", "C04.R3"]),
    ("c04-array-align", "cstruct.py", "self._make_type(name, bases, size, alignment=type_.alignment, attrs=attrs)", "self._make_type(name, bases, size, alignment=size, attrs=attrs)", ["C04.R2"]),
    ("c04-sizeof", "expression.py", "queue.append(len(self.cstruct.resolve(tmp_expression[i + 2])))", "queue.append(self.cstruct.resolve(tmp_expression[i + 2]).alignment)", ["C04.R5"]),
    ("c04-template-mod", "compiler.py", "yield f\"stream.seek(-stream.tell() & ({field.alignment} - 1), {io.SEEK_CUR})\"", "yield f\"stream.seek(stream.tell() % {field.alignment}, {io.SEEK_CUR})\"", ["C04.R4"]),
    # ---- C01 / C02 / C06
    ("c01-int-mask", "types/int.py", "data.to_bytes(cls.size, ENDIANNESS_MAP[cls.cs.endian], signed=cls.signed)", "(data & ((1 << (cls.size * 8)) - 1)).to_bytes(cls.size, ENDIANNESS_MAP[cls.cs.endian], signed=False)", ["C01.R3", "C01.R2"]),
    ("c01-wchar-const", "types/wchar.py", "return stream.write(data.encode(cls.__encoding_map__[cls.cs.endian]))", "return stream.write(data.encode(\"utf-16-le\"))", ["C01.R2"]),
    ("c01-array-guard", "types/base.py", "cls.num_entries != (actual_size := len(data))", "cls.num_entries < (actual_size := len(data))", ["C01.R4", "C07.R4"]),
    ("c02-no-final-flush", "types/structure.py", "        if bit_buffer._type is not None:\n            bit_buffer.flush()\n\n        if cls.__align__:", "        if cls.__align__:", ["C02.R2", "C06.R3"]),
    ("c02-flush-guard", "types/structure.py", "if (not field.bits and bit_buffer._type is not None) or (", "if (bit_buffer._type is not None and field.offset is not None) or (", ["C02.R2"]),
    ("c02-enum-terminator", "types/enum.py", "return cls._write_array(stream, [*data, cls.type.__default__()])", "return cls._write_array(stream, data)", ["C02.R3", "C12.R1"]),
    ("c02-chararray-nul", "types/char.py", "return stream.write(data + b\"\\x00\")", "return stream.write(data)", ["C02.R3"]),
    ("c02-pad-ff", "types/structure.py", "stream.write(b\"\\x00\" * align_pad)", "stream.write(b\"\\xff\" * align_pad)", ["C02.R1"]),
    ("c06-read-typechange", "bitbuffer.py", "        if self._remaining == 0 or self._type != field_type:\n            if field_type.size is None:\n                raise ValueError(\"Reading", "        if self._remaining == 0:\n            if field_type.size is None:\n                raise ValueError(\"Reading", ["C06.R1"]),
    ("c06-no-straddle", "bitbuffer.py", "        if bits > self._remaining:\n            raise ValueError(\"Reading straddled bits is unsupported\")\n\n", "", ["C06.R2"]),
    ("c06-unsigned-flush", "bitbuffer.py", "if _is_signed(self._type) and value >> (self._type.size * 8 - 1) == 1:", "if False:", ["C06.R5", "C01.R6"]),
    ("c06-mask", "bitbuffer.py", "v = self._buffer & ((1 << bits) - 1)", "v = self._buffer & ((1 << self._remaining) - 1)", ["C06.R6"]),
    # ---- C07 / C09 / C11
    ("c07-no-clamp", "types/base.py", "num = max(0, cls.num_entries.evaluate(context))", "num = cls.num_entries.evaluate(context)", ["C07.R1"]),
    ("c07-drop-context", "types/base.py", "return cls.type._read_array(stream, num, context)", "return cls.type._read_array(stream, num)", ["C07.R2"]),
    ("c07-enum-context", "types/enum.py", "return list(map(cls, cls.type._read_0(stream, context)))", "return list(map(cls, cls.type._read_0(stream)))", ["C07.R2", "C12.R1"]),
    ("c07-dims", "parser.py", "for count in reversed(counts):", "for count in counts:", ["C07.R7", "C07.R22"]),
    ("c07-swallow-eval", "types/base.py", "                if cls.num_entries.expression != \"EOF\":\n                    raise\n", "", ["C07.R6"]),
    ("c09-abs-offset", "types/structure.py", "                offset = struct_start + field.offset\n                stream.seek(offset)", "                offset = field.offset\n                stream.seek(offset)", ["C09.R1"]),
    ("c09-template-abs", "compiler.py", "yield f\"stream.seek(o + {field.offset})\"", "yield f\"stream.seek({field.offset})\"", ["C09.R1", "C09.R4"]),
    ("c09-union-abs", "types/structure.py", "            buf.seek(offset + start)", "            buf.seek(start)", ["C09.R1", "C09.R4"]),
    ("c09-eof-norestore", "types/base.py", "    stream.seek(pos)\n    return False", "    return False", ["C09.R2"]),
    ("c09-writer-pad", "types/structure.py", "stream.write(b\"\\x00\" * (struct_start + field.offset - offset))", "stream.write(b\"\\x00\" * (field.offset - offset))", ["C09.R4"]),
    ("c09-union-sizes", "types/structure.py", "sizes[field._name] = buf.tell() - (offset + start)", "sizes[field._name] = buf.tell() - start", ["C09.R4"]),
    ("c11-no-seek", "types/structure.py", "            buf.seek(offset + start)\n", "", ["C11.R1"]),
    ("c11-no-proxify", "types/structure.py", "        self._update()\n\n        # (Re-)proxify all values\n        self._proxify()", "        self._update()", ["C11.R2", "C11.R3"]),
    ("c11-proxy-key", "types/structure.py", "                    union_attr = attr or field._name", "                    union_attr = field._name", ["C11.R4"]),
    ("c11-setattr-norebuild", "types/structure.py", "        if attr in self.__class__.lookup:\n", "        if attr in self.__class__.fields and value is not None:\n", ["C11.R2"]),
    # ---- C10 / C12 / C13
    ("c10-shift-level", "expression.py", "\">>\": 3,", "\">>\": 4,", ["C10.R1", "C10.R16"]),
    ("c10-gt", "expression.py", "self.precedence_levels[o1] >= self.precedence_levels[o2]", "self.precedence_levels[o1] > self.precedence_levels[o2]", ["C10.R2", "C10.R16"]),
    ("c10-sub-swapped", "expression.py", "\"-\": lambda a, b: a - b", "\"-\": lambda a, b: b - a", ["C10.R3", "C10.R16"]),
    ("c10-consts-first", "expression.py", "            elif current_token in context:\n                queue.append(int(context[current_token]))\n            elif current_token in self.cstruct.consts:\n                queue.append(int(self.cstruct.consts[current_token]))",
     "            elif current_token in self.cstruct.consts:\n                queue.append(int(self.cstruct.consts[current_token]))\n            elif current_token in context:\n                queue.append(int(context[current_token]))", ["C10.R6", "C10.R16"]),
    ("c12-flag-next", "parser.py", "nextval = 2 ** (high_bit + 1)", "nextval = 2 ** high_bit", ["C12.R3", "C12.R16"]),
    ("c12-missing-mask", "types/enum.py", "        new_member._value_ = value\n        return new_member", "        new_member._value_ = value & 0xFFFFFFFF\n        return new_member", ["C12.R2"]),
    ("c12-flag-eq", "types/flag.py", "if isinstance(other, Flag) and other.__class__ is not self.__class__:\n            return False", "if isinstance(other, Flag) and other.__class__ is not self.__class__:\n            return self.value == other.value", ["C12.R4"]),
    ("c12-write-novalue", "types/enum.py", "return cls.type._write(stream, data.value)", "return cls.type._write_array(stream, [data.value])", ["C12.R1"]),
    ("c13-name-gap", "parser.py", "(?:\\s*\\[(?P<count>", "(?:\\[(?P<count>", ["C13.R2"]),
    ("c13-typedef-boundary", "parser.py", "r\"typedef(?=\\s)\"", "r\"typedef\"", ["C13.R1"]),
    ("c13-direct-typedefs", "parser.py", "            self.cstruct.add_type(name, type_)", "            self.cstruct.typedefs[name] = type_", ["C13.R4"]),
    ("c13-while-true", "cstruct.py", "        for _ in range(10):", "        while True:", ["C13.R5"]),
    ("c13-comment-lines", "parser.py", "return \"\\n\" * comment.count(\"\\n\")", "return \"\"", ["C13.R6"]),
    ("c13-dup-guard", "cstruct.py", "if not replace and (name in self.typedefs and self.resolve(self.typedefs[name]) != self.resolve(type_)):", "if not replace and name in self.typedefs and type_ is None:", ["C13.R4"]),
    # ---- C17 / C18 / C20
    ("c17-start0", "types/structure.py", "return _patch_attributes(_make__hash__(len(fields)), fields, 1)", "return _patch_attributes(_make__hash__(len(fields)), fields, 0)", ["C17.R1"]),
    ("c17-consts-order", "types/structure.py", "co_consts=(None, *[field.type.__default__() for field in fields]),", "co_consts=(*[field.type.__default__() for field in fields], None),", ["C17.R1"]),
    ("c17-eq-skip-last", "types/structure.py", "    self_vals = \",\".join(f\"self.{name}\" for name in fields)\n    other_vals = \",\".join(f\"other.{name}\" for name in fields)", "    self_vals = \",\".join(f\"self.{name}\" for name in fields[:-1])\n    other_vals = \",\".join(f\"other.{name}\" for name in fields[:-1])", ["C17.R2", "C17.R1"]),
    ("c17-init-reversed", "types/structure.py", "for i, name in enumerate(fields))\n\n    code = f\"def __init__(self{', ' + field_args or ''}):\\n\"\n    return code + (field_init or \" pass\")\n\n\n@_codegen\ndef _make_union__init__",
     "for i, name in reversed(list(enumerate(fields))))\n\n    code = f\"def __init__(self{', ' + field_args or ''}):\\n\"\n    return code + (field_init or \" pass\")\n\n\n@_codegen\ndef _make_union__init__", ["C17.R1", "C17.R2"]),
    ("c17-hash-other-list", "types/structure.py", "classdict[\"__hash__\"] = _generate__hash__(field_names)", "classdict[\"__hash__\"] = _generate__hash__(raw_lookup.keys())", ["C17.R3"]),
    ("c18-no-commit", "parser.py", "            st.__fields__.extend(fields)\n            st.commit()", "            st.__fields__.extend(fields)", ["C18.R1"]),
    ("c18-stale-alignment", "types/structure.py", "        classdict[\"alignment\"] = alignment\n", "", ["C18.R2", "C04.R2"]),
    ("c18-stale-reader", "types/structure.py", "                classdict[\"_read\"] = classmethod(Structure._read.__func__)\n                classdict[\"__compiled__\"] = False", "                pass", ["C18.R2"]),
    ("c18-finally", "types/structure.py", "        finally:\n            cls.commit()\n            cls.__updating__ = False", "        finally:\n            cls.__updating__ = False", ["C18.R1"]),
    ("c20-str-alias", "tools/stubgen.py", "        if isinstance(typedef, str):\n            # An alias by name (e.g. ``cs.add_type(\"a\", \"uint8\")``) has no type object to inspect\n            body.append(textwrap.indent(f\"{name}: TypeAlias = {cs_prefix}{typedef}\", prefix=indent))\n            continue\n\n", "", ["C20.R3", "C20.R13"]),
    ("c20-array-typedef", "tools/stubgen.py", "        elif issubclass(typedef, (types.BaseArray, types.Pointer)):", "        elif False:", ["C20.R6", "C20.R13"]),
    ("c20-skip-bits", "tools/stubgen.py", "        result.append(f\"    {field_name}: {type_hint}\")", "        if not field.bits:\n            result.append(f\"    {field_name}: {type_hint}\")", ["C20.R4", "C20.R13"]),
    ("c20-enum-const", "tools/stubgen.py", "        if isinstance(value, (types.Enum, types.Flag)):\n            # Members of anonymous enums are registered as constants, their repr is not a literal but their value is\n            value = value.value\n", "", ["C20.R7", "C20.R13"]),
    ("c20-uint48-name", "cstruct.py", "self._make_int_type(\"uint48\", 6, False, alignment=8)", "self._make_int_type(\"int48\", 6, False, alignment=8)", ["C20.R5", "C04.R1"]),
]

# the repository's fix commits (message prefix -> rules that must fire when the commit is reverted)
REVERTS: list[tuple[str, str, list[str]]] = [
    ("revert-F3", "fix: use a unary-minus marker|fix: keep Expression evaluation state local", ["C15.R1"]),  # F8 touched the same lines later: revert both
    ("revert-F2", "fix: name the uint48 type", ["C04.R1", "C20.R5"]),
    ("revert-F10", "fix: allow whitespace between a field name", ["C13.R2"]),
    ("revert-F8", "fix: use a unary-minus marker", ["C10.R4", "C10.R16"]),
    ("revert-F7", "fix: generate a stub for string type aliases", ["C20.R3", "C20.R13"]),
    ("revert-F1", "fix: unions holding a union with a structure member can be parsed again|fix: rebuild unions through the top-level member", ["C11.R4", "C11.R19", "C11.R26"]),  # F39 touched the same lines later: revert both
    ("revert-F5a", "fix: give every element of a default array", ["C14.R2"]),
    ("revert-F9", "fix: record _values/_sizes when a single-char structure", ["C09.R3"]),
    ("revert-F4", "fix: keep rejecting bit field values that overflow a signed storage unit|fix: write bit-field units of signed storage types", ["C06.R5", "C01.R6"]),
    ("revert-F11", "fix: record member sizes of a dynamic union", ["C09.R4"]),
    ("revert-F12", "fix: alias every typedef of an array or pointer type to its type hint|fix: alias typedefs of array and pointer types", ["C20.R6", "C20.R13"]),
    ("revert-F13", "fix: emit the integer value of anonymous enum members", ["C20.R7", "C20.R13"]),
    ("revert-F14", "fix: leave structures with byte-based|fix: slice compiled arrays of enums|fix: start a new compiled read block when a field offset moves backwards|fix: start a new compiled read block when a field behind|fix: seek to the field offset when a compiled read block starts behind a gap", ["C03.R8", "C03.R24"]),
    ("revert-F15", "fix: start a new compiled read block when a field offset moves backwards|fix: leave structures with byte-based|fix: slice compiled arrays of enums|fix: start a new compiled read block when a field behind", ["C03.R12", "C03.R24"]),
    ("revert-F16", "fix: leave structures with byte-based|fix: slice compiled arrays of enums", ["C03.R13", "C03.R24"]),
    ("revert-F17", "fix: leave structures with byte-based", ["C03.R14", "C03.R24"]),
    ("revert-F18", "fix: unpack the block when an empty packed array slices the unpacked data|fix: unpack compiled read blocks made of one value", ["C03.R16", "C03.R24"]),  # F38 refined the same condition later: revert both
    ("revert-F19", "fix: read char bit fields through their own storage type", ["C03.R17", "C03.R24"]),
    ("revert-F22", "fix: start a new compiled read block when a field offset moves backwards", ["C03.R18", "C03.R24"]),
    ("revert-F20", "fix: keep array sizes that name an earlier field", ["C07.R11", "C10.R8"]),
    ("revert-F23", "fix: do not align the stream after a structure without fields", ["C09.R5", "C09.R6", "C03.R19"]),
    ("revert-F24", "fix: aligned layout keeps bit fields of one unit together|fix: allow bit fields of the same type behind a dynamically sized field", ["C04.R12", "C06.R8"]),
    ("revert-F25", "fix: remember the storage type of every compiled bit field unit", ["C06.R1", "C03.R9", "C03.R24", "C06.R11"]),
    # F28 (values are refused at write()) makes the overflow of F26 unreachable, so F26 is only visible with F28 reverted as well
    ("revert-F26", "fix: reject bit field values that do not fit their field|fix: keep rejecting bit field values that overflow a signed storage unit", ["C06.R5", "C01.R6"]),
    ("revert-F29", "fix: give the stub class of an enum without members a body", ["C20.R12", "C20.R13"]),
    ("revert-F30", "fix: alias every typedef of an array or pointer type to its type hint", ["C20.R12", "C20.R13"]),
    ("revert-F31", "fix: do not rebuild a union under the name of an anonymous structure's field", ["C11.R2"]),
    ("revert-F32", "fix: dump a union through its anonymous structure when no regular member is as large", ["C11.R12", "C01.R18"]),
    ("revert-F28", "fix: reject bit field values that do not fit their field", ["C06.R5", "C01.R6"]),
    ("revert-F36", "fix: stubs name the structure behind a pointer or array field where it is declared", ["C20.R11", "C20.R13"]),
    ("revert-F34", "fix: readers no longer align in the middle of a bit field unit", ["C03.R24", "C04.R13"]),
    ("revert-F35", "fix: aligned layout keeps bit fields of one unit together", ["C04.R12", "C06.R8"]),
    ("revert-F27", "fix: do not pad in front of an enum bit field that continues a storage unit", ["C02.R9", "C01.R16", "C04.R13"]),
    ("revert-F37", "fix: fall back to the interpreted reader for arrays the compiler cannot pack", ["C03.R24"]),
    ("revert-F38", "fix: unpack the block when an empty packed array slices the unpacked data", ["C03.R24"]),
    ("revert-F39", "fix: unions holding a union with a structure member can be parsed again", ["C11.R19"]),
    ("revert-F40", "fix: parse the bytes given to a structure whose only field is a char bit field", ["C09.R7", "C08.R6"]),
]

# behaviour-preserving textual twins (id, file, old, new)
TWINS: list[tuple[str, str, str, str]] = [
    ("twin-int-not-eq", "types/int.py", "if len(data) != cls.size:", "if not len(data) == cls.size:"),
    ("twin-int-lt", "types/int.py", "if len(data) != cls.size:", "if len(data) < cls.size:"),
    ("twin-endian-alias", "types/int.py", "        return cls.from_bytes(data, ENDIANNESS_MAP[cls.cs.endian], signed=cls.signed)", "        order = ENDIANNESS_MAP[cls.cs.endian]\n        return cls.from_bytes(data, order, signed=cls.signed)"),
    ("twin-clamp-swapped", "types/base.py", "num = max(0, cls.num_entries.evaluate(context))", "num = max(cls.num_entries.evaluate(context), 0)"),
    ("twin-seek-whence0", "types/structure.py", "                offset = struct_start + field.offset\n                stream.seek(offset)", "                offset = struct_start + field.offset\n                stream.seek(offset, 0)"),
    ("twin-or-swapped", "bitbuffer.py", "        if self._remaining == 0 or self._type != field_type:\n            if field_type.size is None:\n                raise ValueError(\"Reading", "        if self._type != field_type or self._remaining == 0:\n            if field_type.size is None:\n                raise ValueError(\"Reading"),
    ("twin-prec-renumber", "expression.py", "        \"|\": 0,\n        \"^\": 1,\n        \"&\": 2,\n        \"<<\": 3,\n        \">>\": 3,\n        \"+\": 4,\n        \"-\": 4,\n        \"*\": 5,\n        \"/\": 5,\n        \"%\": 5,\n        \"-u\": 6,\n        \"~\": 6,\n        \"sizeof\": 6,",
     "        \"|\": 0,\n        \"^\": 10,\n        \"&\": 20,\n        \"<<\": 30,\n        \">>\": 30,\n        \"+\": 40,\n        \"-\": 40,\n        \"*\": 50,\n        \"/\": 50,\n        \"%\": 50,\n        \"-u\": 60,\n        \"~\": 60,\n        \"sizeof\": 60,"),
    ("twin-flag-shift", "parser.py", "nextval = 2 ** (high_bit + 1)", "nextval = 1 << (high_bit + 1)"),
    ("twin-new-alias", "cstruct.py", "            \"uint\": \"uint32\",", "            \"uint\": \"uint32\",\n            \"u32\": \"uint32\","),
    # (the tail padding 'offset += -offset & (alignment - 1)' has no modulo twin: alignment is 0 for an empty structure, where % would divide by zero -
    #  the layout fold found that this former twin was not behaviour-preserving)
    ("twin-roundup-mod", "types/structure.py", "                offset += -offset & (field.alignment - 1)", "                offset += -offset % field.alignment"),
    ("twin-typedef-boundary", "parser.py", "r\"typedef(?=\\s)\"", "r\"typedef\\b(?=\\s)\""),
    ("twin-log-in-handler", "compiler.py", "            log.debug(\"Failed to compile %s\", structure, exc_info=e)", "            log.debug(\"Failed to compile %s\", structure, exc_info=e)\n            log.debug(\"falling back to the interpreted reader\")"),
    ("twin-proxy-ifexp", "types/structure.py", "                    union_attr = attr or field._name", "                    union_attr = attr if attr is not None else field._name"),
    ("twin-terminator-local", "types/base.py", "        return cls._write_array(stream, [*array, cls.__default__()])", "        terminated = [*array, cls.__default__()]\n        return cls._write_array(stream, terminated)"),
    ("twin-pointer-local", "types/pointer.py", "        return type.__call__(self.__class__, int.__add__(self, other), self._stream, self._context)", "        return type.__call__(self.__class__, int.__add__(self, other), self._stream, self._context)  # unchanged"),
    ("twin-rename-local", "types/structure.py", "        struct_start = stream.tell()\n\n        result = {}\n        sizes = {}\n        for field in cls.__fields__:\n            offset = stream.tell()\n\n            if field.offset is not None and offset != struct_start + field.offset:\n                # Field is at a specific offset, either alligned or added that way\n                offset = struct_start + field.offset",
     "        base = stream.tell()\n\n        result = {}\n        sizes = {}\n        for field in cls.__fields__:\n            offset = stream.tell()\n\n            if field.offset is not None and offset != base + field.offset:\n                # Field is at a specific offset, either alligned or added that way\n                offset = base + field.offset"),
]


TWINS_REGEX: list[tuple[str, str, str, str, str]] = [
    # (id, file, function-qualname-prefix or "", regex, replacement): applied to the whole file text
    ("twin-fieldvar-structure", "types/structure.py", "", r"\bfield\b(?!s|_)", "fld"),
    ("twin-fieldvar-compiler", "compiler.py", "", r"\bfield\b(?!s|_)", "fld"),
]


# ---------------------------------------------------------------------------------------------------------------

# archived seeded changes the checks are known not to decide (value-level behaviour with no structural necessary condition); see DESIGN.md 9.5
DOCUMENTED_MISSES = {
    "seed-C08-r7-2": "count of an [EOF] array of fixed-size entries computed up front (a trailing partial entry dropped instead of raising): C08 sets "
                     "to-end-of-stream arrays aside in its statement; C09.R1 reports the seek to the end of the stream the change introduces",
    "seed-C05-r4-3": "'unsigned char' re-aliased from char to uint8: the property speaks of the type char; the built-in table oracle deliberately accepts both "
                     "readings of 'unsigned char' (raw byte as the library has it, 8-bit unsigned as C has it), so no rule claims the spelling",
    "seed-C13-r5-1": "sizeof() errors re-raised as ExpressionParserError, which TokenParser._constant swallows: two cooperating sites in expression.py / parser.py, "
                     "neither wrong alone; the parsers are not folded",
    "seed-C02-r6-2": "a new error handler ('surrogatepass') passed by three of the four wide-character readers / writers and forgotten in WcharArray._write: input "
                     "the pristine readers reject is now parsed and cannot be dumped - no rule compares the error handlers of sibling codecs",
    "seed-C12-r6-3": "legacy (DEF_LEGACY) enum parser splits the body on commas before it strips '//' comments: the regex-based legacy parser is only checked "
                     "for its patterns, not folded",
    "seed-C14-r6-1": "Union._rebuild keeps the caller's structure object instead of the copy re-read from the buffer: two unions given the same object then "
                     "alias it - an identity property of values the folds do not model",
    "seed-C20-r4-2": "legacy parser registers the typedef names before the struct tag: only the insertion order of cs.typedefs changes; the stub generator "
                     "declares a class under the first key it meets - no structural necessary condition on the legacy parser's order is claimed",
}


def _scratch_copy() -> str:
    d = tempfile.mkdtemp(prefix="csa_st_")
    shutil.copytree(os.path.join(REPO_ROOT, "dissect"), os.path.join(d, "dissect"), ignore=shutil.ignore_patterns("__pycache__"))
    return d


def _check_all(root: str, props: list[str]) -> dict[str, tuple[int, list[str]]]:
    """property -> (status, failing rule ids).  status 0 ok, 1 violations (not covered by known findings), 2 analysis error."""
    from .__main__ import analyse
    from .report import load_known, match_known
    from .util import AnalysisError

    out = {}
    known = load_known()
    for p in props:
        try:
            rep = analyse(p, "quick", root)
            fails = [i for i in rep.failures if match_known(p, i, known) is None]
            out[p] = (1 if fails else 0, sorted({i.rule for i in fails}))
        except AnalysisError as e:
            out[p] = (2, [f"ANALYSIS-ERROR {e}"])
        except Exception as e:  # noqa: BLE001
            out[p] = (2, [f"CRASH {type(e).__name__}: {e}"])
    return out


def _props_of(rules: list[str]) -> list[str]:
    return sorted({r.split(".")[0] for r in rules})


def _run_mutant(job):
    kind, mid, rel, old, new, expect = job
    d = _scratch_copy()
    try:
        path = os.path.join(d, PKG, rel)
        src = open(path, encoding="utf-8").read()
        if old not in src:
            return (mid, "STALE", f"text to replace not found in {rel}", expect)
        src2 = src.replace(old, new, 1)
        open(path, "w", encoding="utf-8").write(src2)
        try:
            py_compile.compile(path, doraise=True, cfile=os.path.join(d, "x.pyc"))
        except py_compile.PyCompileError as e:
            return (mid, "NOCOMPILE", str(e)[:200], expect)
        res = _check_all(d, _props_of(expect))
        fired = sorted({r for st, rules in res.values() if st == 1 for r in rules})
        errs = [f"{p}: {r[1]}" for p, r in res.items() if r[0] == 2]
        ok = any(r in fired for r in expect)
        return (mid, "DETECTED" if ok else ("ERROR" if errs else "MISSED"), f"fired={fired} {errs if errs else ''}", expect)
    finally:
        shutil.rmtree(d, ignore_errors=True)


def _run_revert(job):
    kind, mid, prefix, expect = job
    d = _scratch_copy()
    try:
        log = subprocess.run(["git", "-C", REPO_ROOT, "log", "--format=%H %s"], capture_output=True, text=True).stdout.splitlines()
        sha = ""
        for pre in prefix.split("|"):
            sha = next((l.split(" ", 1)[0] for l in log if l.split(" ", 1)[1].startswith(pre)), None)
            if sha is None:
                return (mid, "STALE", f"no commit whose subject starts with '{pre}'", expect)
            diff = subprocess.run(["git", "-C", REPO_ROOT, "show", "--format=", sha, "--", "dissect"], capture_output=True, text=True).stdout
            r = subprocess.run(["patch", "-R", "-p1", "-s", "-d", d], input=diff, capture_output=True, text=True)
            if r.returncode != 0:
                return (mid, "STALE", f"fix commit {sha[:7]} no longer reverse-applies: {r.stdout[-150:]}{r.stderr[-150:]}", expect)
        res = _check_all(d, _props_of(expect))
        fired = sorted({r for st, rules in res.values() if st == 1 for r in rules})
        ok = any(r in fired for r in expect)
        return (mid, "DETECTED" if ok else "MISSED", f"{sha[:7]} fired={fired}", expect)
    finally:
        shutil.rmtree(d, ignore_errors=True)


def _run_twin(job):
    kind, tid, rel, old, new = job
    from .__main__ import CLAIMED

    d = _scratch_copy()
    try:
        if old.startswith("regex:"):
            import re as _re

            path = os.path.join(d, PKG, rel)
            src = open(path, encoding="utf-8").read()
            # identifiers only: leave string literals / comments that merely mention the word alone is not needed for a twin; keyword
            # arguments and attribute names called ``field`` do not occur in these files
            src2 = _re.sub(old[6:], new, src)
            open(path, "w", encoding="utf-8").write(src2)
            py_compile.compile(path, doraise=True, cfile=os.path.join(d, "x.pyc"))
        elif rel == "*unparse*":
            for dirpath, _dn, fns in os.walk(os.path.join(d, PKG)):
                for fn in fns:
                    if fn.endswith(".py"):
                        p = os.path.join(dirpath, fn)
                        src = open(p, encoding="utf-8").read()
                        open(p, "w", encoding="utf-8").write(ast.unparse(ast.parse(src)) + "\n")
        else:
            path = os.path.join(d, PKG, rel)
            src = open(path, encoding="utf-8").read()
            if old not in src:
                return (tid, "STALE", f"text to replace not found in {rel}", [])
            open(path, "w", encoding="utf-8").write(src.replace(old, new, 1))
            py_compile.compile(path, doraise=True, cfile=os.path.join(d, "x.pyc"))
        res = _check_all(d, CLAIMED)
        bad = {p: r for p, r in res.items() if r[0] != 0}
        return (tid, "SILENT" if not bad else "FALSE-ALARM", f"{bad}" if bad else "", [])
    finally:
        shutil.rmtree(d, ignore_errors=True)


def _run_seeded(job):
    """An archived, independently written breaking change (/verif/seeded/<id>/patch.diff) applied to a scratch copy."""
    kind, sid, patch, expect_props = job
    d = _scratch_copy()
    try:
        r = subprocess.run(["patch", "-p1", "-s", "-d", d, "-i", patch], capture_output=True, text=True)
        if r.returncode != 0:
            return (sid, "STALE", f"archived patch no longer applies: {(r.stdout + r.stderr)[-160:]}", expect_props)
        res = _check_all(d, expect_props)
        fired = sorted({x for st, rules in res.values() if st == 1 for x in rules})
        return (sid, "DETECTED" if fired else "MISSED", f"fired={fired}", expect_props)
    finally:
        shutil.rmtree(d, ignore_errors=True)


def _run_benign(job):
    """An archived behaviour-preserving refactoring written by an independent agent (/verif/benign/<id>/patch.diff): every check must stay silent."""
    from .__main__ import CLAIMED

    kind, bid, patch, _ = job
    d = _scratch_copy()
    try:
        r = subprocess.run(["patch", "-p1", "-s", "-d", d, "-i", patch], capture_output=True, text=True)
        if r.returncode != 0:
            return (bid, "STALE", f"archived patch no longer applies: {(r.stdout + r.stderr)[-160:]}", [])
        res = _check_all(d, CLAIMED)
        alarms = {p: v for p, v in res.items() if v[0] != 0}
        return (bid, "SILENT" if not alarms else "FALSE-ALARM", f"{alarms}" if alarms else "", [])
    finally:
        shutil.rmtree(d, ignore_errors=True)


# archived behaviour-preserving refactorings (benign round 8) on which a check still raises an alarm: false alarms of shape rules that are not yet the
# fallback of a fold (DESIGN.md 9.5i).  They are listed so that the run tells them apart from a *new* false alarm; they are not findings of /repo.
DOCUMENTED_FALSE_ALARMS = {
    "benign-B70-3": "terminator shape rule (C02.R3 = C07.R3) on StructureMetaType._read_0 rewritten as while True / break: no structure _read_0 fold yet",
    "benign-B70-4": "flush-guard / unit-switch shape rules on a writer whose flush decision moved into a helper: the structure reader / writer fold does not imply those clauses",
    "benign-B71-1": "calculator shape rule (C04.R3 = C11.R6): the round-up idiom moved into a helper _round_up()",
    "benign-B71-3": "calculator / unit-switch shape rules on the bit-field branch rewritten with early continue and De Morgan",
    "benign-B71-4": "calculator / union-size shape rules: len() or None moved into a helper _static_len()",
    "benign-B74-1": "C20.R2 (open finding F6) keys its emit sites by template skeleton: a template moved into a helper is a 'new' unsanitised emit site",
    "benign-B74-2": "the stub fold does not take the module-level helpers of stubgen.py into its environment: C20.R7's anchor error is not demoted",
    "benign-B74-4": "as B74-1 (C20.R2 construct keys)",
    "benign-B75-2": "bytecode-layout rule of the generated __init__ patcher (C17.R4, shared): the code-object rebuild moved into a helper",
    "benign-B76-1": "comment-pattern rule (C13.R6) does not resolve a regex held in a class constant",
    "benign-B76-3": "token-table rule (C13) requires the (regex, name) pairs as literals at the add() calls",
    "benign-B77-1": "built-in type table oracle (C04.R1, shared) needs the typedef table as one literal: ** of a dict built by loops is refused (exit 2)",
    "benign-B77-4": "as B77-1 (the alias part of the table spread from module-level dicts)",
    "benign-B79-2": "comment rules (C13) anchor on TokenParser._remove_comments.<locals>._replacer: the helpers became module functions",
}


def _dispatch(job):
    try:
        if job[0] == "benign":
            r = _run_benign(job)
            if r[1] == "FALSE-ALARM" and job[1] in DOCUMENTED_FALSE_ALARMS:
                return (r[0], "SILENT", "documented OPEN FALSE ALARM (" + DOCUMENTED_FALSE_ALARMS[job[1]] + "): " + r[2][:200], r[3])
            return r
        if job[0] == "seeded":
            r = _run_seeded(job)
            if r[1] == "MISSED" and job[1] in DOCUMENTED_MISSES:
                return (r[0], "SILENT", "documented miss: " + DOCUMENTED_MISSES[job[1]], r[3])
            return r
        if job[0] == "mutant":
            return _run_mutant(job)
        if job[0] == "revert":
            return _run_revert(job)
        return _run_twin(job)
    except Exception as e:  # noqa: BLE001
        return (job[1], "ERROR", f"{type(e).__name__}: {e}", [])


def jobs(only: str | None = None):
    js = [("mutant", *m) for m in MUTANTS] + [("revert", *r) for r in REVERTS] + [("twin", "twin-unparse-all", "*unparse*", "", "")] + [("twin", *t) for t in TWINS]
    js += [("twin", t[0], t[1], "regex:" + t[3], t[4]) for t in TWINS_REGEX]
    import glob
    import json

    from . import VERIF_ROOT

    for meta_p in sorted(glob.glob(os.path.join(VERIF_ROOT, "seeded", "*", "meta.json"))):
        sid = os.path.basename(os.path.dirname(meta_p))
        try:
            prop = json.load(open(meta_p))["property"]
        except (OSError, ValueError, KeyError):
            continue
        js.append(("seeded", "seed-" + sid, os.path.join(os.path.dirname(meta_p), "patch.diff"), [prop]))
    for patch in sorted(glob.glob(os.path.join(VERIF_ROOT, "benign", "*", "patch.diff"))):
        js.append(("benign", "benign-" + os.path.basename(os.path.dirname(patch)), patch, []))
    if only:
        js = [j for j in js if only in j[1] or (j[0] not in ("twin", "benign") and any(only in r for r in j[-1]))]
    return js


def _dispatch_timed(job):
    t0 = time.time()
    return _dispatch(job), time.time() - t0


def main(jobs_n: int = 16, only: str | None = None, jobs: int | None = None) -> int:
    n = jobs or jobs_n
    t0 = time.time()
    js = globals()["jobs"](only)
    results = []
    with Pool(min(n, max(1, len(js)))) as pool:
        for k, r in enumerate(pool.imap_unordered(_dispatch_timed, js, chunksize=1)):
            results.append(r[0])
            if os.environ.get("CSA_SELFTEST_PROGRESS"):
                print(f"[selftest] {k + 1}/{len(js)} {r[0][0]} {r[0][1]} {r[1]:.0f}s", flush=True)
    bad = 0
    counts: dict[str, int] = {}
    for rid, status, detail, expect in results:
        counts[status] = counts.get(status, 0) + 1
        if status not in ("DETECTED", "SILENT"):
            bad += 1
            print(f"[selftest] {status:11s} {rid}  expected={expect}  {detail}")
    print(f"[selftest] {len(results)} cases in {time.time() - t0:.1f}s: {counts}")
    return 1 if bad else 0


def sensitivity_audit(prop: str) -> dict:
    """Thorough tier: run the mutants / reverts whose expected rule belongs to ``prop``; recorded in the evidence, never changes the exit status."""
    import glob
    import json

    from . import VERIF_ROOT

    js = [j for j in jobs(None) if j[0] in ("mutant", "revert") and any(r.startswith(prop + ".") for r in j[-1])]
    for meta_p in sorted(glob.glob(os.path.join(VERIF_ROOT, "seeded", "*", "meta.json"))):
        try:
            meta = json.load(open(meta_p))
        except Exception:  # noqa: BLE001
            continue
        if meta.get("property") == prop:
            sid = "seeded-" + os.path.basename(os.path.dirname(meta_p))
            js.append(("seeded", sid, os.path.join(os.path.dirname(meta_p), "patch.diff"), [prop]))
    if not js:
        return {"variants": 0, "detected": 0}
    with Pool(min(16, len(js))) as pool:
        results = pool.map(_dispatch, js, chunksize=1)
    det = [r for r in results if r[1] == "DETECTED"]
    return {
        "variants": len(results),
        "detected": len(det),
        "not_detected": [{"id": r[0], "status": r[1], "detail": r[2]} for r in results if r[1] != "DETECTED"],
        "note": "each variant is /repo's current source with one rule instance broken (scratch copy, removed afterwards); a variant whose "
                "anchor text no longer exists is reported as STALE, not as detected",
    }
