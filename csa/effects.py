"""Write effects per function, classified by the root of the written object."""

from __future__ import annotations

import ast
from dataclasses import dataclass

from .callgraph import (
    FRESH_CALLS,
    KIND_PER_CALL,
    KIND_SHARED,
    KIND_VALUE,
    MUTATORS,
    RETURNS_SHARED,
    SETATTR_CHAINS,
    SETATTR_FUNCS,
    CallGraph,
)
from .model import FuncInfo, Repo
from .util import call_name, chain, norm, root_name, short, walk_body, walk_local

# severity order used when a local has several bindings
ORDER = ["fresh", "self-percall", "self-value", "call-result", "param", "cls", "self-shared", "shared-call", "global"]
ALLOWED = {"fresh", "self-percall", "self-value", "call-result"}
FORBIDDEN = {"cls", "self-shared", "shared-call", "global"}


@dataclass
class Effect:
    func: FuncInfo
    node: ast.AST
    target: str
    root: str
    root_class: str  # one of ORDER, for 'param' the name is in .param
    what: str
    param: str | None = None
    attr: str | None = None  # first attribute written under the root (self.<attr>...)

    @property
    def construct(self) -> str:
        return f"{self.func.key}:{self.what} {self.target}"


class EffectAnalysis:
    def __init__(self, repo: Repo, cg: CallGraph):
        self.repo = repo
        self.cg = cg
        self._eff: dict[str, list[Effect]] = {}
        self._kind_cache: dict[str, str] = {}

    # ------------------------------------------------------------------ object kinds
    def class_kind(self, cls: str) -> str:
        """shared | per-call | value for ``self`` of an instance method of ``cls``."""
        if cls in self._kind_cache:
            return self._kind_cache[cls]
        if cls in KIND_SHARED:
            k = "shared"
        elif cls in KIND_PER_CALL:
            k = "per-call"
        elif cls in KIND_VALUE or any(b in KIND_VALUE for b in self.repo.mro(cls)):
            k = "value"
        elif any(b in KIND_SHARED for b in self.repo.mro(cls)):
            k = "shared"
        elif any(b in KIND_PER_CALL for b in self.repo.mro(cls)):
            k = "per-call"
        else:
            # unknown class (not in the frozen table): decide structurally from its construction sites
            k = "per-call" if self.constructed_only_locally(cls) else "shared"
        self._kind_cache[cls] = k
        return k

    def constructed_only_locally(self, cls: str) -> bool:
        """Every ``cls(...)`` is inside a function and its value does not flow into an attribute of cls/self-of-shared/module."""
        found = 0
        for mod in self.repo.modules.values():
            for node in ast.walk(mod.tree):
                if isinstance(node, ast.Call):
                    c = chain(node.func)
                    if c and c[-1] == cls:
                        found += 1
        if found == 0:
            return False
        for site in self.cg.sites:
            c = chain(site.call.func)
            if c and c[-1] == cls:
                continue
        # construction at module / class level?
        for mod in self.repo.modules.values():
            for st in mod.tree.body:
                nodes = [st] if not isinstance(st, (ast.FunctionDef, ast.ClassDef)) else (
                    [s for s in st.body if not isinstance(s, (ast.FunctionDef, ast.AsyncFunctionDef))] if isinstance(st, ast.ClassDef) else [])
                for n0 in nodes:
                    for n in ast.walk(n0):
                        if isinstance(n, ast.Call):
                            c = chain(n.func)
                            if c and c[-1] == cls:
                                return False
        # stored into an attribute of something that is not a fresh local / per-call self?
        for fi in self.repo.all_functions():
            for n in walk_body(fi.node.body):
                if isinstance(n, ast.Assign) and isinstance(n.value, ast.Call):
                    c = chain(n.value.func)
                    if c and c[-1] == cls:
                        for t in n.targets:
                            if isinstance(t, (ast.Attribute, ast.Subscript)):
                                rc, _ = self.classify_root(fi, root_name(t) or "", self.cg.local_bindings(fi))
                                if rc in FORBIDDEN:
                                    return False
        return True

    # ------------------------------------------------------------------ root classification
    def classify_root(self, fi: FuncInfo, name: str, binds, depth: int = 0, seen: frozenset = frozenset()) -> tuple[str, str | None]:
        """-> (class, param-name-if-param)"""
        if (fi.key, name) in seen or depth > 6:
            return "fresh", None
        seen = seen | {(fi.key, name)}
        declared_global = any(isinstance(n, ast.Global) and name in n.names for n in walk_body(fi.node.body))
        if declared_global:
            return "global", None
        if name == fi.self_name and fi.cls is not None:
            if fi.kind == "classmethod" or fi.cls.name in self.cg.metaclasses:
                return "cls", None
            k = self.class_kind(fi.cls.name)
            return {"shared": "self-shared", "per-call": "self-percall", "value": "self-value"}[k], None
        if name in fi.params and name not in binds:
            return "param", name
        # a function defined locally, or the parameter of a lambda inside this function
        for n in walk_body(fi.node.body):
            if isinstance(n, (ast.FunctionDef, ast.AsyncFunctionDef)) and n.name == name:
                return "fresh", None
            if isinstance(n, ast.Lambda) and name in [a.arg for a in n.args.args]:
                return "call-result", None
        if name in binds or name in fi.params:
            worst = "fresh"
            pname = None
            if name in fi.params:
                worst, pname = "param", name
            for v in binds.get(name, []):
                c, p = self.classify_value(fi, v, binds, depth + 1, seen)
                if ORDER.index(c) > ORDER.index(worst):
                    worst, pname = c, p
            return worst, pname
        # closure variable of an enclosing function
        outer = fi.parent
        while outer is not None:
            ob = self.cg.local_bindings(outer)
            if name in ob or name in outer.params or name == outer.self_name:
                return self.classify_root(outer, name, ob, depth + 1, seen)
            outer = outer.parent
        # module-level name, class, imported module
        return "global", None

    def classify_value(self, fi: FuncInfo, v: ast.AST, binds, depth: int, seen: frozenset) -> tuple[str, str | None]:
        if isinstance(v, (ast.Constant, ast.JoinedStr, ast.List, ast.Dict, ast.Set, ast.Tuple, ast.ListComp, ast.DictComp,
                          ast.SetComp, ast.GeneratorExp, ast.BinOp, ast.Compare, ast.BoolOp, ast.UnaryOp, ast.Lambda)):
            if isinstance(v, ast.BoolOp):
                # ``x = a or {}``: may alias a
                worst, pn = "fresh", None
                for e in v.values:
                    c, p = self.classify_value(fi, e, binds, depth, seen)
                    if ORDER.index(c) > ORDER.index(worst):
                        worst, pn = c, p
                return worst, pn
            return "fresh", None
        if isinstance(v, ast.IfExp):
            a = self.classify_value(fi, v.body, binds, depth, seen)
            b = self.classify_value(fi, v.orelse, binds, depth, seen)
            return a if ORDER.index(a[0]) >= ORDER.index(b[0]) else b
        if isinstance(v, ast.NamedExpr):
            return self.classify_value(fi, v.value, binds, depth, seen)
        if isinstance(v, ast.Call):
            n = call_name(v)
            fc = chain(v.func)
            if n == "getattr" and v.args:
                return self.classify_value(fi, v.args[0], binds, depth, seen)
            if n in RETURNS_SHARED:
                return "shared-call", None
            if n in FRESH_CALLS or n in ("__new__", "__call__"):
                return "fresh", None
            if fc and fc[-1] in self.repo.classes:
                return "fresh", None  # constructor
            if isinstance(v.func, ast.Call) and call_name(v.func) == "super":
                return "fresh", None
            # lru_cache'd package functions return shared objects
            for callee in self.cg.by_name.get(n or "", []):
                decs = [norm(d) for d in callee.node.decorator_list]
                if any("lru_cache" in d or "_codegen" in d or "cache" == d for d in decs):
                    return "shared-call", None
            return "call-result", None
        if isinstance(v, ast.Subscript):
            return self.classify_value(fi, v.value, binds, depth, seen)
        if isinstance(v, ast.Starred):
            return self.classify_value(fi, v.value, binds, depth, seen)
        if isinstance(v, ast.Attribute):
            r = root_name(v)
            if r is None:
                return self.classify_value(fi, v.value, binds, depth, seen) if isinstance(v.value, (ast.Call, ast.Subscript)) else ("call-result", None)
            c, p = self.classify_root(fi, r, binds, depth, seen)
            return c, p
        if isinstance(v, ast.Name):
            return self.classify_root(fi, v.id, binds, depth, seen)
        return "call-result", None

    # ------------------------------------------------------------------ effects
    def effects(self, fi: FuncInfo) -> list[Effect]:
        if fi.key in self._eff:
            return self._eff[fi.key]
        out: list[Effect] = []
        binds = self.cg.local_bindings(fi)

        def add(node: ast.AST, target: ast.AST, what: str) -> None:
            r = root_name(target)
            if r is None:
                # write through a call result / literal: e.g. ``f(x).y = 1``
                base = target
                while isinstance(base, (ast.Attribute, ast.Subscript)):
                    base = base.value
                c, p = self.classify_value(fi, base, binds, 0, frozenset())
                out.append(Effect(fi, node, short(target, 80), "<expr>", c, what, p, None))
                return
            c, p = self.classify_root(fi, r, binds)
            ch = chain(target if not isinstance(target, ast.Subscript) else target.value)
            attr = ch[1] if ch and len(ch) > 1 else None
            out.append(Effect(fi, node, short(target, 80), r, c, what, p, attr))

        for n in walk_body(fi.node.body):
            if isinstance(n, ast.Assign):
                for t in n.targets:
                    for tt in ([t] if not isinstance(t, (ast.Tuple, ast.List)) else t.elts):
                        if isinstance(tt, (ast.Attribute, ast.Subscript)):
                            add(n, tt, "store")
                        elif isinstance(tt, ast.Name) and self._is_global_store(fi, tt.id):
                            out.append(Effect(fi, n, tt.id, tt.id, "global", "store"))
            elif isinstance(n, ast.AugAssign):
                if isinstance(n.target, (ast.Attribute, ast.Subscript)):
                    add(n, n.target, "augstore")
                elif isinstance(n.target, ast.Name):
                    if self._is_global_store(fi, n.target.id):
                        out.append(Effect(fi, n, n.target.id, n.target.id, "global", "augstore"))
                    elif isinstance(n.op, (ast.Add, ast.Mult, ast.BitOr)) and isinstance(n.value, (ast.List, ast.ListComp, ast.Set, ast.Dict)):
                        # ``x += [..]`` mutates lists in place: classify the root like a mutator when x aliases something
                        c, p = self.classify_root(fi, n.target.id, binds)
                        if c not in ("fresh",) and self._may_be_mutable_alias(fi, n.target.id, binds):
                            out.append(Effect(fi, n, n.target.id, n.target.id, c, "augstore-alias", p))
            elif isinstance(n, ast.AnnAssign) and n.value is not None and isinstance(n.target, (ast.Attribute, ast.Subscript)):
                add(n, n.target, "store")
            elif isinstance(n, ast.Delete):
                for t in n.targets:
                    if isinstance(t, (ast.Attribute, ast.Subscript)):
                        add(n, t, "del")
            elif isinstance(n, ast.Call):
                nm = call_name(n)
                fc = chain(n.func)
                if isinstance(n.func, ast.Attribute) and nm in MUTATORS and not self.cg.is_stream(fi, n.func.value):
                    # a package method of that name on a typed receiver is a call, not a container mutation
                    k = self.cg.class_of_expr(fi, n.func.value, binds)
                    if k is not None and self.repo.lookup_instance_method(k, nm) is not None:
                        continue
                    add(n, n.func.value, f"mutator:{nm}")
                elif (isinstance(n.func, ast.Name) and nm in SETATTR_FUNCS and n.args) or (fc in SETATTR_CHAINS and n.args):
                    tgt = n.args[0]
                    name_arg = n.args[1] if len(n.args) > 1 else None
                    label = norm(tgt) + "." + (name_arg.value if isinstance(name_arg, ast.Constant) and isinstance(name_arg.value, str) else "<dyn>")
                    r = root_name(tgt)
                    if r is None:
                        c, p = self.classify_value(fi, tgt, binds, 0, frozenset())
                        out.append(Effect(fi, n, label, "<expr>", c, "setattr", p))
                    else:
                        c, p = self.classify_root(fi, r, binds)
                        a = name_arg.value if isinstance(name_arg, ast.Constant) else None
                        if isinstance(tgt, ast.Attribute):
                            a = chain(tgt)[1] if chain(tgt) and len(chain(tgt)) > 1 else a
                        out.append(Effect(fi, n, label, r, c, "setattr", p, a))
        self._eff[fi.key] = out
        return out

    def _is_global_store(self, fi: FuncInfo, name: str) -> bool:
        for n in walk_body(fi.node.body):
            if isinstance(n, (ast.Global, ast.Nonlocal)) and name in n.names:
                if isinstance(n, ast.Global):
                    return True
        return False

    def _may_be_mutable_alias(self, fi: FuncInfo, name: str, binds) -> bool:
        """``x += ...`` only matters when x aliases an attribute / parameter that may be a list."""
        for v in binds.get(name, []):
            if isinstance(v, (ast.Attribute, ast.Subscript)):
                return True
        return False

    # ------------------------------------------------------------------ parameter mutation summaries
    def mutated_params(self, closure: set[str]) -> dict[str, set[str]]:
        """func key -> names of its parameters that it (transitively, inside ``closure``) mutates."""
        summ: dict[str, set[str]] = {}
        for k in closure:
            fi = self.cg.funcs[k]
            summ[k] = {e.param for e in self.effects(fi) if e.root_class == "param" and e.param}
        changed = True
        while changed:
            changed = False
            for site in self.cg.sites:
                if site.caller.key not in closure:
                    continue
                binds = self.cg.local_bindings(site.caller)
                for callee in site.callees:
                    if callee.key not in closure or not summ.get(callee.key):
                        continue
                    for pname, arg in bind_args(site.call, callee):
                        if pname in summ[callee.key]:
                            r = root_name(arg)
                            if r is None:
                                continue
                            c, p = self.classify_root(site.caller, r, binds)
                            if c == "param" and p and p not in summ[site.caller.key]:
                                summ[site.caller.key].add(p)
                                changed = True
        return summ


def bind_args(call: ast.Call, callee: FuncInfo) -> list[tuple[str, ast.AST]]:
    """Pair actual arguments with the callee's parameter names (self/cls of bound calls skipped)."""
    a = callee.node.args
    params = [x.arg for x in [*a.posonlyargs, *a.args]]
    bound = callee.kind in ("method", "classmethod", "property")
    f = call.func
    explicit_self = False
    if isinstance(f, ast.Attribute):
        rc = chain(f.value)
        # Class.method(obj, ...) / type.__call__(cls, ...) pass self explicitly
        if rc and len(rc) == 1 and rc[0][:1].isupper() and callee.cls is not None and rc[0] == callee.cls.name:
            explicit_self = True
    if bound and not explicit_self:
        params = params[1:]
    out = []
    for i, arg in enumerate(call.args):
        if isinstance(arg, ast.Starred):
            break
        if i < len(params):
            out.append((params[i], arg))
    for kw in call.keywords:
        if kw.arg is not None:
            out.append((kw.arg, kw.value))
    return out
