"""Folding of the BitBuffer methods over a finite set of unit sizes, bit orders and width sequences.

The source of ``BitBuffer.read`` / ``write`` / ``flush`` (and whatever private helpers they call inside bitbuffer.py) is interpreted by the
checker's own whitelist evaluator (``minieval``) over symbolic stream / storage-type objects; nothing of the repository is imported or
executed.  The results are compared with the C bit-field order: LSB-first for little-endian units, MSB-first for big-endian units.
Any arrangement of the statements that computes the same values folds to the same result, so the rules built on this do not depend on
local names, on the nesting of the tests or on helper extraction.  If the code uses a construct outside the evaluator's whitelist the
fold is ``None`` and the caller falls back to its structural rule.
"""

from __future__ import annotations

from typing import Any

from .minieval import Evaluator, Host, Raised, Refused, Sym, UserFunc
from .model import Repo
from .foldpool import disk_cached

_MISSING = object()


def _getattr(o: Any, name: str, default: Any = _MISSING) -> Any:
    if not isinstance(o, Sym):
        raise Refused("getattr on a non-symbolic object")
    if name in o.attrs:
        return o.attrs[name]
    if default is _MISSING:
        raise Refused(f"getattr {name}")
    return default


class BitBufferModel:
    def __init__(self, repo: Repo):
        mod = repo.module("bitbuffer.py")
        self.methods: dict[str, UserFunc] = {}
        self.base_env: dict[str, Any] = {
            "isinstance": Host(lambda o, t: (t is bytes and isinstance(o, bytes)) or (t is int and isinstance(o, int) and not isinstance(o, bool))),
            "getattr": Host(_getattr), "bytes": bytes, "hasattr": Host(lambda o, n: isinstance(o, Sym) and (n in o.attrs or n in o.methods)),
        }
        for q, fi in mod.functions.items():
            if q.startswith("BitBuffer.") and q.count(".") == 1:
                self.methods[q.split(".", 1)[1]] = UserFunc(fi.node)
            elif "." not in q:
                self.base_env[q] = UserFunc(fi.node)
        self.refused: str | None = None

    def storage_type(self, label: str, size: int, signed: bool, style: str, sink: list, source: list) -> Sym:
        attrs: dict[str, Any] = {"size": size, "__name__": label}
        if style == "int":
            attrs["signed"] = signed
        else:  # packed: signedness only in the struct format character
            attrs["packchar"] = {1: "b", 2: "h", 4: "i", 8: "q"}[size] if signed else {1: "B", 2: "H", 4: "I", 8: "Q"}[size]
        return Sym(label, attrs, {"_write": Host(lambda stream, value: sink.append((label, value))), "_read": Host(lambda stream, *a: source.pop(0))})

    def buffer(self, endian: str, sink: list | None = None) -> Sym:
        def raw_write(b, sink=sink):
            if sink is None:
                raise Refused("raw stream write while folding reads")
            sink.append(("<raw>", bytes(b)))
            return len(bytes(b))

        attrs = {"stream": Sym("stream", {}, {"write": Host(raw_write)}), "endian": endian, "_type": None, "_buffer": 0, "_remaining": 0}
        return Sym("bitbuffer", attrs, dict(self.methods))

    def call(self, bb: Sym, method: str, *args: Any) -> Any:
        """('ok', value) | ('raise', exc) ; Refused propagates."""
        ev = Evaluator(self.base_env, steps=20000)
        try:
            return ("ok", ev.call_user(self.methods[method], [bb, *args], {}))
        except Raised as e:
            return ("raise", str(e))


def width_sequences(total: int) -> list[tuple[int, ...]]:
    seqs: set[tuple[int, ...]] = set()
    if total == 8:
        for a in range(1, 9):
            seqs.add((a,))
            for b in range(1, 9 - a):
                seqs.add((a, b))
                if a + b < 8:
                    seqs.add((a, b, 8 - a - b))
    else:
        for a in (1, 2, 7, 8, 9, total - 1, total):
            seqs.add((a,))
            for b in (1, 8, total - a):
                if 0 < b <= total - a:
                    seqs.add((a, b))
        seqs.add((3, 5, total - 8))
        seqs.add(tuple([1] * total))
    return sorted(seqs)


def patterns(total: int) -> list[int]:
    full = (1 << total) - 1
    return [full, 0xA5C3965A17E4B2D8 & full, (1 << (total - 1)) | 1, 0]


def c_order_field(unit: int, total: int, endian: str, off: int, bits: int) -> int:
    if endian == "<":
        return (unit >> off) & ((1 << bits) - 1)
    return (unit >> (total - off - bits)) & ((1 << bits) - 1)


@disk_cached('bbreads', ('bitbuffer.py',))
def fold_reads(repo: Repo) -> dict | None:
    """Fold BitBuffer.read; returns {'cases': n, 'bad': [(endian, size, seq, unit, k, got, want)], 'straddle_bad': [...]} or None if not foldable."""
    m = BitBufferModel(repo)
    out = {"cases": 0, "bad": [], "consume_bad": [], "straddle_bad": []}
    try:
        for endian in "<>":
            for size in (1, 2, 4):
                total = size * 8
                for seq in width_sequences(total):
                    for unit, signed in [(u, False) for u in patterns(total)] + [(u, True) for u in patterns(total)[:3]]:
                        # a signed storage type hands the unit over as a negative int when its top bit is set; the fields are the same bits
                        raw = unit - (1 << total) if signed and unit >> (total - 1) else unit
                        source = [raw, 0x5A5A5A5A & ((1 << total) - 1)]
                        ft = m.storage_type(f"{'i' if signed else 'u'}{total}", size, signed, "int", [], source)
                        bb = m.buffer(endian)
                        off = 0
                        for k, bits in enumerate(seq):
                            r = m.call(bb, "read", ft, bits)
                            want = c_order_field(unit, total, endian, off, bits)
                            out["cases"] += 1
                            if r != ("ok", want):
                                out["bad"].append((endian, size, seq, unit, k, r, want))
                            off += bits
                            if bb.attrs["_remaining"] != total - off:
                                out["consume_bad"].append((endian, size, seq, k, bb.attrs["_remaining"], total - off))
                        if off < total:
                            # one more bit than the unit has left must be refused, not served from the next unit
                            r = m.call(bb, "read", ft, total - off + 1)
                            out["cases"] += 1
                            if r[0] != "raise":
                                out["straddle_bad"].append((endian, size, seq, total - off + 1, r))
    except Refused as e:
        m.refused = str(e)
        return None
    except (KeyError, IndexError, TypeError, ValueError, AttributeError) as e:  # the fold itself went wrong: treat as not foldable
        m.refused = f"{type(e).__name__}: {e}"
        return None
    return out


@disk_cached('bbwrites', ('bitbuffer.py',))
def fold_writes(repo: Repo) -> dict | None:
    """Fold BitBuffer.write + flush over unsigned / signed storage types (Int-style and Packed-style signedness)."""
    m = BitBufferModel(repo)
    out = {"cases": 0, "bad": [], "range_bad": [], "state_bad": [], "overflow_bad": []}
    try:
        for endian in "<>!=@":
            for size in (1, 2, 4):
                total = size * 8
                for signed, style in ((False, "int"), (True, "int"), (False, "packed"), (True, "packed")):
                    # "!", "=" and "@" are byte orders of the storage type; for them only a unit made of one full-width field is folded, whose
                    # value does not depend on the bit order: what must hold is that the bytes emitted are the storage type's encoding
                    for seq in (width_sequences(total) if endian in "<>" else [(total,)]):
                        for unit in patterns(total):
                            sink: list = []
                            ft = m.storage_type(f"t{total}", size, signed, style, sink, [])
                            bb = m.buffer(endian, sink)
                            off = 0
                            want_unit = 0
                            for bits in seq:
                                data = c_order_field(unit, total, endian, off, bits)
                                want_unit |= data << (off if endian == "<" else total - off - bits)
                                r = m.call(bb, "write", ft, data, bits)
                                if r[0] != "ok":
                                    out["bad"].append((endian, size, signed, style, seq, unit, r, "write refused"))
                                off += bits
                            if off < total:
                                if sink:
                                    out["bad"].append((endian, size, signed, style, seq, unit, sink[:], "flushed before the unit was full or flushed explicitly"))
                                m.call(bb, "flush")
                            out["cases"] += 1
                            if len(sink) != 1:
                                out["bad"].append((endian, size, signed, style, seq, unit, sink[:], "exactly one unit write expected"))
                                continue
                            value = sink[0][1]
                            if sink[0][0] == "<raw>":
                                # the unit was emitted as bytes, bypassing the storage type: they must be that type's encoding of the pattern
                                import sys

                                order = {"<": "little", ">": "big", "!": "big"}.get(endian, sys.byteorder)
                                if value != want_unit.to_bytes(size, order):
                                    out["bad"].append((endian, size, signed, style, seq, unit, value.hex(), want_unit.to_bytes(size, order).hex() + " (raw bytes)"))
                                continue
                            if not isinstance(value, int) or (value - want_unit) % (1 << total) != 0:
                                out["bad"].append((endian, size, signed, style, seq, unit, value, want_unit))
                                continue
                            lo, hi = (-(1 << (total - 1)), 1 << (total - 1)) if signed else (0, 1 << total)
                            if not lo <= value < hi:
                                out["range_bad"].append((endian, size, signed, style, seq, unit, value))
                            st = bb.attrs
                            if st["_type"] is not None or st["_remaining"] != 0 or st["_buffer"] != 0:
                                out["state_bad"].append((endian, size, seq, {k: st[k] for k in ("_type", "_remaining", "_buffer")}))
        # a value too wide for its field in the most significant position makes the accumulated pattern exceed the unit: whatever is handed to the
        # storage type must then be outside its range (so that it is refused), for signed storage types too
        for endian in "<>":
            for size in (1, 2):
                total = size * 8
                for signed, style in ((False, "int"), (True, "int"), (True, "packed")):
                    sink = []
                    ft = m.storage_type(f"o{total}", size, signed, style, sink, [])
                    bb = m.buffer(endian, sink)
                    seq = (total - 4, 4)
                    top = (1, 0x13) if endian == "<" else (((1 << (total - 4)) | 3), 1)   # too wide in the most significant field
                    low = (((1 << (total - 4)) | 3), 1) if endian == "<" else (1, 0x13)   # too wide next to a neighbour: would spill into it
                    neg = (1, -2)                                                          # a negative value
                    edge_a = (1, 0x10)                      # exactly 2 ** bits: the smallest value that does not fit
                    edge_b = ((1 << (total - 4)), 1)
                    for datas in (top, low, neg, edge_a, edge_b):
                        sink.clear()
                        bb = m.buffer(endian, sink)
                        refused = False
                        for d_, b_ in zip(datas, seq):
                            if m.call(bb, "write", ft, d_, b_)[0] == "raise":
                                refused = True
                                break
                        if not refused and not sink and m.call(bb, "flush")[0] == "raise":
                            refused = True
                        out["cases"] += 1
                        for label, value in ([] if refused else sink):
                            if label == "<raw>":
                                continue
                            lo, hi = (-(1 << (total - 1)), 1 << (total - 1)) if signed else (0, 1 << total)
                            if isinstance(value, int) and lo <= value < hi:
                                out["overflow_bad"].append((endian, size, signed, style, datas, value))
    except Refused as e:
        m.refused = str(e)
        return None
    except (KeyError, IndexError, TypeError, ValueError, AttributeError) as e:
        m.refused = f"{type(e).__name__}: {e}"
        return None
    return out
