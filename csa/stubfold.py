"""Fold of the stub generator: ``generate_cstruct_stub`` is interpreted (whitelist evaluator, nothing of the repository imported) on a model cstruct
object whose definitions cover every kind of thing a stub has to declare, and the text it returns is parsed with ``ast`` and compared with what
the definitions say.

The model object holds: constants (int, negative int, str, bytes, float, a member of an anonymous enum), an alias by name, an alias of a built-in
type, two typedefs of one array type, a pointer typedef, an enum, a second name for the same enum, an enum without members, a flag, structures
with scalar / char-array / wchar-array / enum / bit-field / pointer fields, fields of a registered structure (plain, array, pointer), of anonymous
structures (plain, two-dimensional array, pointer), of a named structure that is not registered, a union, and a custom base type.

Checked: the text is valid Python; it declares one class (named as asked, derived from the cstruct class with the module prefix) that declares
exactly the names the object provides beyond a fresh ``cstruct()``; constants are ``Literal[<value>]``; aliases name what they alias, in the scope
where it is declared; enum / flag classes list every member (``...`` when there is none); structure classes declare every field with the hint of
its type (registered types through the cstruct class, inline classes - declared before their first use - by their bare name), an ``__init__``
overload taking every field and one taking the input; nothing names a class the stub does not declare.
"""

from __future__ import annotations

import ast
import textwrap
from typing import Any

from .minieval import ClassObj, Evaluator, Exhausted, Host, Raised, Refused, Sym, UserFunc
from .model import Repo

_TAGS = {
    "Packed": {"BaseType", "Packed"}, "Int": {"BaseType", "Int"}, "Char": {"BaseType", "Char"}, "Wchar": {"BaseType", "Wchar"},
    "CharArray": {"BaseType", "BaseArray", "CharArray"}, "WcharArray": {"BaseType", "BaseArray", "WcharArray"}, "Array": {"BaseType", "BaseArray", "Array"},
    "Pointer": {"BaseType", "Pointer"}, "Structure": {"BaseType", "Structure"}, "Union": {"BaseType", "Structure", "Union"},
    "Enum": {"BaseType", "Enum"}, "Flag": {"BaseType", "Flag"}, "Custom": {"BaseType"},
}
_CLASSES = ["BaseType", "Packed", "Int", "Char", "Wchar", "CharArray", "WcharArray", "Array", "BaseArray", "Pointer", "Structure", "Union", "Enum", "Flag", "Void", "LEB128"]


class Model:
    def __init__(self) -> None:
        self.classes = {n: Sym(f"class:{n}", {"__name__": n}) for n in _CLASSES}
        self.types: dict[str, Sym] = {}
        b = self.builtin = {}
        for name, fam in (("uint8", "Packed"), ("uint16", "Packed"), ("uint32", "Packed"), ("int24", "Int"), ("char", "Char"), ("wchar", "Wchar")):
            b[name] = self.mk(name, fam, base=fam)
        self.cs = Sym("cs", {"typedefs": {}, "consts": {}})
        self.cs.strict = True

        def resolve(name: Any) -> Any:
            seen = 0
            while isinstance(name, str):
                if name not in self.cs.attrs["typedefs"] or seen > 10:
                    raise KeyError(name)
                name = self.cs.attrs["typedefs"][name]
                seen += 1
            return name

        self.cs.methods["resolve"] = Host(resolve)

    def mk(self, name: str, fam: str, base: str | None = None, **attrs: Any) -> Sym:
        t = Sym(f"type:{name}:{len(self.types)}", {"__name__": name, "__base__": Sym(f"base:{base or fam}", {"__name__": base or fam}), "__model__": {"tags": _TAGS[fam], "fam": fam},
                                                    "__anonymous__": name.startswith("__anonymous"), **attrs})
        t.strict = True
        self.types[t.label] = t
        return t

    def array(self, elem: Sym, n: int) -> Sym:
        fam = {"Char": "CharArray", "Wchar": "WcharArray"}.get(elem.attrs["__model__"]["fam"], "Array")
        return self.mk(f"{elem.attrs['__name__']}[{n}]", fam, type=elem, num_entries=n)

    def pointer(self, target: Sym) -> Sym:
        return self.mk(f"{target.attrs['__name__']}*", "Pointer", type=target)

    def struct(self, name: str, fields: list[tuple[str, Sym, int | None]], fam: str = "Structure") -> Sym:
        fs = {n: Sym(f"field:{name}.{n}", {"name": n, "_name": n, "type": t, "bits": bits}) for n, t, bits in fields}
        for f in fs.values():
            f.strict = True
        t = self.mk(name, fam, base=fam, fields=fs, __fields__=list(fs.values()), cs=self.cs)
        return t

    def enum(self, name: str, members: dict[str, int], fam: str = "Enum") -> Sym:
        t = self.mk(name, fam, base=fam, type=self.builtin["uint8"])
        t.attrs["__members__"] = {k: Sym(f"member:{name}.{k}", {"value": v, "name": k, "__model__": {"member_of": fam}}) for k, v in members.items()}
        return t


def build_model() -> tuple[Model, dict]:
    """The model object and what a stub of it must declare: name -> ('const', value) | ('alias', expression) | ('enum', base, [members]) |
    ('struct', base, [(inline class | field, ...)]) | ('class', base)."""
    m = Model()
    b = m.builtin
    cs = m.cs
    P = "@CS@."       # the scope prefix of registered names, filled in per configuration
    M = "@MOD@"       # the module prefix
    expect: dict[str, Any] = {}
    anon_enum = m.enum("", {"ANON_A": 3, "ANON_B": 4})
    anon_flag = m.enum("", {"PERM_R": 4}, "Flag")
    cs.attrs["consts"].update({"SIZE": 16, "NEG": -5, "NAME": "text", "RAW": b"by", "RATIO": 1.5, "ANON_A": anon_enum.attrs["__members__"]["ANON_A"],
                               "PERM_R": anon_flag.attrs["__members__"]["PERM_R"], "ZERO": 0, "EMPTY": ""})
    expect.update({"SIZE": ("const", 16), "NEG": ("const", -5), "NAME": ("const", "text"), "RAW": ("const", b"by"), "RATIO": ("const", 1.5), "ANON_A": ("const", 3),
                   "PERM_R": ("const", 4), "ZERO": ("const", 0), "EMPTY": ("const", "")})
    td = cs.attrs["typedefs"]
    td.update(b)
    td["my_u8"] = "uint8"
    expect["my_u8"] = ("alias", f"{P}uint8")
    td["DWORD2"] = b["uint32"]
    td["DWORD3"] = b["uint32"]
    expect["DWORD2"] = expect["DWORD3"] = ("alias", f"{P}uint32")
    td["node_t"] = "late"          # an alias by name registered before the type it names
    expect["node_t"] = ("alias", f"{P}late")
    arr4 = m.array(b["uint8"], 4)
    td["arr4"] = arr4
    td["arr4b"] = arr4
    expect["arr4"] = expect["arr4b"] = ("alias", f"{M}Array[{P}uint8]")
    td["u8ptr"] = m.pointer(b["uint8"])
    expect["u8ptr"] = ("alias", f"{M}Pointer[{P}uint8]")
    td["name16"] = m.array(b["char"], 16)
    expect["name16"] = ("alias", f"{M}CharArray")
    color = m.enum("Color", {"RED": 0, "GREEN": 1})
    td["Color"] = color
    td["Colour"] = color
    expect["Color"] = ("enum", f"{M}Enum", ["RED", "GREEN"])
    expect["Colour"] = ("alias", "Color")
    td["Empty"] = m.enum("Empty", {})
    expect["Empty"] = ("enum", f"{M}Enum", [])
    td["Perm"] = m.enum("Perm", {"R": 4, "W": 2}, "Flag")
    expect["Perm"] = ("enum", f"{M}Flag", ["R", "W"])
    child = m.struct("child", [("a", b["uint8"], None)])
    td["child"] = child
    expect["child"] = ("struct", f"{M}Structure", [("field", "a", f"{P}uint8")])
    anon0 = m.struct("__anonymous_0__", [("z", b["uint8"], None)])
    anon1 = m.struct("__anonymous_1__", [("y", b["uint16"], None)])
    anon2 = m.struct("__anonymous_2__", [("w", child, None)])
    header = m.struct("header", [("magic", m.array(b["char"], 4), None)])   # a named structure defined in place: not registered on the object
    S = m.struct("S", [
        ("x", b["uint8"], None), ("c", child, None), ("cs2", m.array(child, 2), None), ("pc", m.pointer(child), None), ("inner", anon0, None),
        ("grid", m.array(m.array(anon1, 2), 2), None), ("pa", m.pointer(anon2), None), ("hdr", header, None), ("e", color, None),
        ("text", m.array(b["char"], 4), None), ("wide", m.array(b["wchar"], 2), None), ("lo", b["uint8"], 3), ("hi", b["uint8"], 5),
        ("p32", m.pointer(b["uint32"]), None), ("tail", b["uint16"], None), ("ce", m.array(color, 2), None), ("ptrs", m.array(m.pointer(b["uint8"]), 2), None),
        ("pstr", m.pointer(m.array(b["char"], 8)), None),
    ])
    td["S"] = S
    expect["S"] = ("struct", f"{M}Structure", [
        ("field", "x", f"{P}uint8"), ("field", "c", f"{P}child"), ("field", "cs2", f"{M}Array[{P}child]"), ("field", "pc", f"{M}Pointer[{P}child]"),
        ("class", "__anonymous_0__", f"{M}Structure", [("field", "z", f"{P}uint8")]), ("field", "inner", "__anonymous_0__"),
        ("class", "__anonymous_1__", f"{M}Structure", [("field", "y", f"{P}uint16")]), ("field", "grid", f"{M}Array[{M}Array[__anonymous_1__]]"),
        ("class", "__anonymous_2__", f"{M}Structure", [("field", "w", f"{P}child")]), ("field", "pa", f"{M}Pointer[__anonymous_2__]"),
        ("class", "header", f"{M}Structure", [("field", "magic", f"{M}CharArray")]), ("field", "hdr", "header"),
        ("field", "e", f"{P}Color"), ("field", "text", f"{M}CharArray"), ("field", "wide", f"{M}WcharArray"), ("field", "lo", f"{P}uint8"), ("field", "hi", f"{P}uint8"),
        ("field", "p32", f"{M}Pointer[{P}uint32]"), ("field", "tail", f"{P}uint16"), ("field", "ce", f"{M}Array[{P}Color]"),
        ("field", "ptrs", f"{M}Array[{M}Pointer[{P}uint8]]"), ("field", "pstr", f"{M}Pointer[{M}CharArray]"),
    ])
    td["U"] = m.struct("U", [("a", b["uint32"], None), ("b", b["uint16"], None)], "Union")
    expect["U"] = ("struct", f"{M}Union", [("field", "a", f"{P}uint32"), ("field", "b", f"{P}uint16")])
    td["E"] = m.struct("E", [])
    expect["E"] = ("struct", f"{M}Structure", [])
    # repeated '_' padding members: the name-keyed view (what attribute access sees) holds one; a member of an anonymous structure is folded into it
    pad_fields = [("_", b["uint8"], None), ("a", b["uint16"], None), ("_", b["uint32"], None)]
    pad = m.struct("Pad", [("_", b["uint32"], None), ("a", b["uint16"], None)])
    pad.attrs["__fields__"] = [Sym(f"field:Pad.{i}", {"name": n_, "_name": n_, "type": t_, "bits": None}) for i, (n_, t_, _b) in enumerate(pad_fields)]
    pad.attrs["fields"] = {"_": pad.attrs["__fields__"][2], "a": pad.attrs["__fields__"][1]}
    td["Pad"] = pad
    expect["Pad"] = ("struct", f"{M}Structure", [("field", "_", f"{P}uint32"), ("field", "a", f"{P}uint16")])
    anon_m = m.struct("__anonymous_7__", [("lo", b["uint8"], None), ("hi", b["uint8"], None)])
    folded = m.struct("Folded", [("lo", b["uint8"], None), ("hi", b["uint8"], None), ("v", b["uint16"], None)])
    anon_field = Sym("field:Folded.anon", {"name": None, "_name": "__anonymous_7__", "type": anon_m, "bits": None})
    folded.attrs["__fields__"] = [anon_field, folded.attrs["fields"]["v"]]
    td["Folded"] = folded
    expect["Folded"] = ("struct", f"{M}Structure", [("field", "lo", f"{P}uint8"), ("field", "hi", f"{P}uint8"), ("field", "v", f"{P}uint16")])
    td["vlq"] = m.mk("vlq", "Custom", base="BaseType")
    expect["vlq"] = ("class", f"{M}BaseType")
    td["late"] = m.struct("late", [("n", b["uint8"], None)])
    expect["late"] = ("struct", f"{M}Structure", [("field", "n", f"{P}uint8")])
    return m, expect


class Harness:
    def __init__(self, repo: Repo):
        self.repo = repo
        self.mod = repo.module("tools/stubgen.py")
        self.entry = repo.func("tools/stubgen.py", "generate_cstruct_stub")

    def env(self, m: Model) -> dict[str, Any]:
        def tags(t: Any) -> set[str]:
            if isinstance(t, Sym) and "__model__" in t.attrs and "tags" in t.attrs["__model__"]:
                return t.attrs["__model__"]["tags"]
            raise TypeError("issubclass() arg 1 must be a class")

        def issub(t: Any, k: Any) -> bool:
            tg = tags(t)
            for c in (k if isinstance(k, tuple) else (k,)):
                if isinstance(c, tuple):
                    if issub(t, c):
                        return True
                elif isinstance(c, Sym) and c.label.startswith("class:"):
                    if c.label[6:] in tg:
                        return True
                else:
                    raise Refused("issubclass against an unknown class")
            return False

        def isinst(o: Any, k: Any) -> bool:
            for c in (k if isinstance(k, tuple) else (k,)):
                if isinstance(c, Sym) and c.label.startswith("class:"):
                    if isinstance(o, Sym) and o.attrs.get("__model__", {}).get("member_of") == c.label[6:]:
                        return True
                    if c.label == "class:cstruct" and o is m.cs:
                        return True
                elif isinstance(c, type):
                    if isinstance(o, c) and not isinstance(o, Sym):
                        return True
                else:
                    raise Refused("isinstance against an unknown class")
            return False

        def fresh() -> Sym:
            s = Sym("cs:fresh", {"typedefs": dict(m.builtin), "consts": {}})
            s.strict = True
            return s

        def getattr_(o: Any, name: str, *d: Any) -> Any:
            if isinstance(o, Sym) and name in o.attrs:
                return o.attrs[name]
            if d:
                return d[0]
            raise AttributeError(name)

        log = Sym("log", {}, {k: Host(lambda *a, **kw: None) for k in ("debug", "info", "warning", "error")})
        types_mod = Sym("types", dict(m.classes))
        cstruct_cls = Sym("class:cstruct")
        cstruct_cls.call = Host(fresh)
        env: dict[str, Any] = {
            "issubclass": Host(issub), "isinstance": Host(isinst), "getattr": Host(getattr_), "hasattr": Host(lambda o, n: isinstance(o, Sym) and n in o.attrs),
            "types": types_mod, "cstruct": cstruct_cls, "textwrap": Sym("textwrap", {}, {"indent": Host(textwrap.indent), "dedent": Host(textwrap.dedent)}),
            "log": log, "str": str, "int": int, "bytes": bytes, "float": float, "TYPE_CHECKING": False, "__name__": "dissect.cstruct.tools.stubgen",
            "keyword": Sym("keyword", {}, {"iskeyword": Host(__import__("keyword").iskeyword)}),
        }
        env.update(m.classes)  # for 'from dissect.cstruct.types import Structure, ...' spellings
        for st in self.mod.tree.body:
            if isinstance(st, ast.FunctionDef):
                env[st.name] = UserFunc(st, env)
            elif isinstance(st, ast.ClassDef):
                env[st.name] = ClassObj(st, env)
            elif isinstance(st, (ast.Assign, ast.AnnAssign)):
                try:
                    Evaluator(env, steps=5000).run([st], env)
                except (Refused, Raised):
                    pass
        env["log"] = log
        return env


def _literal(node: ast.AST) -> Any:
    return ast.literal_eval(node)


def _check_struct_body(body: list[ast.stmt], items: list, subst, where: str, out: list[str], declared_outer: set[str]) -> None:
    """Walk the class body against the expected items (inline classes and fields in order), then the two __init__ overloads."""
    pos = 0
    fields: list[tuple[str, str]] = []
    local_classes: set[str] = set()

    def next_stmt() -> ast.stmt | None:
        nonlocal pos
        if pos < len(body):
            pos += 1
            return body[pos - 1]
        return None

    for it in items:
        st = next_stmt()
        if it[0] == "class":
            _k, name, base, sub = it
            if not (isinstance(st, ast.ClassDef) and st.name == name):
                out.append(f"{where}: expected the inline class '{name}' (declared before the field that uses it), found '{ast.unparse(st)[:50] if st else 'nothing'}'")
                return
            if [ast.unparse(b_) for b_ in st.bases] != [subst(base)]:
                out.append(f"{where}.{name}: bases {[ast.unparse(b_) for b_ in st.bases]}, expected [{subst(base)}]")
            _check_struct_body(st.body, sub, subst, f"{where}.{name}", out, declared_outer)
            local_classes.add(name)
        else:
            _k, name, hint = it
            want = subst(hint)
            if not (isinstance(st, ast.AnnAssign) and isinstance(st.target, ast.Name) and st.target.id == name and st.value is None):
                out.append(f"{where}: expected the field line '{name}: {want}', found '{ast.unparse(st)[:60] if st else 'nothing'}'")
                return
            got = ast.unparse(st.annotation)
            if got != ast.unparse(ast.parse(want, mode="eval").body):
                out.append(f"{where}.{name}: hinted as '{got}', its type is '{want}'")
            fields.append((name, want))
    inits = body[pos:]
    inits = [s for s in inits if not (isinstance(s, ast.Expr) and isinstance(s.value, ast.Constant) and s.value.value is Ellipsis)]
    if len(inits) != 2 or not all(isinstance(s, ast.FunctionDef) and s.name == "__init__" for s in inits):
        out.append(f"{where}: after the fields two __init__ overloads are expected, found {[ast.unparse(s)[:40] for s in inits]}")
        return
    for s in inits:
        if [ast.unparse(d) for d in s.decorator_list] != ["overload"]:
            out.append(f"{where}.__init__ is not decorated with @overload")
    a = inits[0].args
    got_params = [(p.arg, ast.unparse(p.annotation) if p.annotation is not None else None) for p in a.args]
    want_params = [("self", None)] + [(n, ast.unparse(ast.parse(f"{h} | None", mode="eval").body)) for n, h in fields]
    if got_params != want_params or a.posonlyargs or a.kwonlyargs or a.vararg or a.kwarg:
        out.append(f"{where}.__init__ takes {got_params}, the fields are {want_params}")
    elif len(a.defaults) != len(fields) or not all(isinstance(d, ast.Constant) and d.value is Ellipsis for d in a.defaults):
        out.append(f"{where}.__init__: every field parameter is optional ('= ...')")
    b2 = inits[1].args
    if [p.arg for p in b2.posonlyargs] != ["self", "fh"] or b2.args or ast.unparse(b2.posonlyargs[1].annotation or ast.Constant(None)) != "bytes | memoryview | bytearray | BinaryIO":
        out.append(f"{where}: the second __init__ overload is not (self, fh: bytes | memoryview | bytearray | BinaryIO, /)")


def check_stub(text: str, expect: dict, cls_name: str, module_prefix: str) -> list[str]:
    out: list[str] = []
    try:
        tree = ast.parse(text)
    except SyntaxError as e:
        return [f"the stub is not valid Python: {e.msg} at line {e.lineno}: {(text.splitlines() or [''])[(e.lineno or 1) - 1][:70]!r}"]

    def subst(s: str) -> str:
        return s.replace("@CS@.", f"{cls_name}.").replace("@MOD@", module_prefix)

    if len(tree.body) != 1 or not isinstance(tree.body[0], ast.ClassDef) or tree.body[0].name != cls_name:
        return [f"the stub does not consist of one class named '{cls_name}'"]
    top = tree.body[0]
    if [ast.unparse(b_) for b_ in top.bases] != [f"{module_prefix}cstruct"]:
        out.append(f"the stub class derives from {[ast.unparse(b_) for b_ in top.bases]}, expected {module_prefix}cstruct")
    declared: dict[str, ast.stmt] = {}
    for st in top.body:
        name = st.name if isinstance(st, ast.ClassDef) else (st.target.id if isinstance(st, ast.AnnAssign) and isinstance(st.target, ast.Name) else None)
        if name is None:
            if not (isinstance(st, ast.Expr) and isinstance(st.value, ast.Constant) and st.value.value is Ellipsis):
                out.append(f"unexpected statement in the stub class: {ast.unparse(st)[:60]}")
            continue
        if name in declared:
            out.append(f"'{name}' is declared twice")
        declared[name] = st
    missing = [n for n in expect if n not in declared]
    extra = [n for n in declared if n not in expect]
    if missing:
        out.append(f"the stub does not declare {missing}, which the cstruct object provides")
    if extra:
        out.append(f"the stub declares {extra}, which the cstruct object does not provide (beyond a fresh cstruct())")
    order = [n for n in declared if n in expect]
    classes_seen: set[str] = set()
    for name in order:
        st, want = declared[name], expect[name]
        kind = want[0]
        if kind == "const":
            ok = isinstance(st, ast.AnnAssign) and isinstance(st.annotation, ast.Subscript) and ast.unparse(st.annotation.value) == "Literal"
            try:
                val = _literal(st.annotation.slice) if ok else None
            except (ValueError, SyntaxError):
                ok, val = False, None
            if not ok or val != want[1] or type(val) is not type(want[1]):
                out.append(f"constant {name} is declared as '{ast.unparse(st)[:60]}', its value is {want[1]!r}")
        elif kind == "alias":
            w = ast.unparse(ast.parse(subst(want[1]), mode="eval").body)
            if not (isinstance(st, ast.AnnAssign) and ast.unparse(st.annotation) == "TypeAlias" and st.value is not None and ast.unparse(st.value) == w):
                out.append(f"'{name}' is declared as '{ast.unparse(st)[:70]}', it is another name of '{w}'")
            elif w in expect and w not in classes_seen:
                out.append(f"'{name}' is an alias of '{w}', which is not declared before it")
        elif kind == "enum":
            _k, base, members = want
            if not isinstance(st, ast.ClassDef) or [ast.unparse(b_) for b_ in st.bases] != [subst(base)]:
                out.append(f"'{name}' is declared as '{ast.unparse(st)[:50]}', expected class {name}({subst(base)})")
                continue
            got = [s.targets[0].id for s in st.body if isinstance(s, ast.Assign) and isinstance(s.targets[0], ast.Name)]
            if got != members:
                out.append(f"enum {name} declares members {got}, the definition has {members}")
            classes_seen.add(name)
        elif kind == "struct":
            _k, base, items = want
            if not isinstance(st, ast.ClassDef) or [ast.unparse(b_) for b_ in st.bases] != [subst(base)]:
                out.append(f"'{name}' is declared as '{ast.unparse(st)[:50]}', expected class {name}({subst(base)})")
                continue
            _check_struct_body(st.body, items, subst, name, out, set(declared))
            classes_seen.add(name)
        elif kind == "class":
            if not isinstance(st, ast.ClassDef) or [ast.unparse(b_) for b_ in st.bases] != [subst(want[1])]:
                out.append(f"'{name}' is declared as '{ast.unparse(st)[:50]}', expected class {name}({subst(want[1])})")
            classes_seen.add(name)
    return out


def fold_stub(repo: Repo) -> dict | None:
    """{'cases': n, 'bad': [(configuration, complaint)]} or None when the generator is outside the evaluator's whitelist."""
    out: dict = {"cases": 0, "bad": [], "refused": None}
    try:
        h = Harness(repo)
        for cls_name, module_prefix in (("cstruct", ""), ("_c_def", "__cs__.")):
            m, expect = build_model()
            env = h.env(m)
            args = [m.cs]
            kw = {"module_prefix": module_prefix, "cls_name": cls_name}
            try:
                text = Evaluator(env, steps=400000).call_user(UserFunc(h.entry.node, env), args, kw)
            except Raised as e:
                out["cases"] += 1
                out["bad"].append((f"cls_name={cls_name!r}, module_prefix={module_prefix!r}", f"generate_cstruct_stub raised {e}"))
                continue
            out["cases"] += 1
            if not isinstance(text, str):
                out["bad"].append((f"cls_name={cls_name!r}", f"generate_cstruct_stub returned {type(text).__name__}"))
                continue
            for c in check_stub(text, expect, cls_name, module_prefix)[:6]:
                out["bad"].append((f"cls_name={cls_name!r}, module_prefix={module_prefix!r}", c))
        # an object without definitions: the class needs a body
        m = Model()
        m.cs.attrs["typedefs"].update(m.builtin)
        env = h.env(m)
        text = Evaluator(env, steps=50000).call_user(UserFunc(h.entry.node, env), [m.cs], {})
        out["cases"] += 1
        for c in check_stub(text, {}, "cstruct", ""):
            out["bad"].append(("a cstruct object without definitions", c))
        return out
    except (Refused, Exhausted) as e:
        out["refused"] = str(e)
        return None
    except (TypeError, KeyError, IndexError, ValueError, AttributeError, AssertionError) as e:
        out["refused"] = f"{type(e).__name__}: {e}"
        return None
