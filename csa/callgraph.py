"""Resolved call graph of the package (class-hierarchy analysis over protocol slots + receiver typing).

Receiver typing, in order:  self/cls/super()  ->  the repository's own annotations  ->  locals bound to a
constructor  ->  a frozen table of repo idioms  ->  stream-like receivers (external)  ->  by-name fallback
(counted as ``unresolved_by_type``).
"""

from __future__ import annotations

import ast
from dataclasses import dataclass, field

from .model import SLOTS, FuncInfo, Repo
from .util import call_name, chain, norm, walk_body, walk_local

# ---------------------------------------------------------------------------------------------------------------
# Frozen tables (each entry with its reason; see DESIGN.md appendix A)

#: attribute chains / local names that denote a *type object* (a class created by cstruct._make_type)
TYPE_OBJECT_SUFFIXES = {
    "type": "BaseArray.type / Pointer.type / EnumMetaType.type / Field.type hold a type class",
    "_type": "BitBuffer._type is the storage type of the current unit",
    "pointer": "cstruct.pointer is the configured pointer type",
    "__class__": "class of a value",
    "ArrayType": "array class of a type",
}
TYPE_OBJECT_NAMES = {
    "field_type", "bit_field_type", "bits_type", "type_", "read_type", "nested_type", "_t", "_et", "_pt", "anonymous_struct",
    "structure", "st", "typedef", "enum", "enum_cls", "target", "subtype", "prev_bits_type", "base", "metacls", "owner",
}
#: methods of the public/protocol API of type objects that are resolved across all families
TYPE_API = set(SLOTS) | {
    "read", "reads", "write", "dumps", "commit", "add_field", "start_update", "_update_fields", "_calculate_size_and_offsets",
    "_read_fields", "__call__", "__getitem__", "__len__",
}

CSTRUCT_CHAINS = {("cls", "cs"), ("self", "cs"), ("self", "cstruct"), ("cs",), ("structure", "cs"), ("field_type", "cs"),
                  ("type_", "cs"), ("enum_cls", "cs")}

#: receivers that are file objects / private buffers: their methods are outside the analysed program
STREAM_NAMES = {"stream", "buf", "fh", "out", "obj_stream"}
STREAM_CHAINS = {("self", "stream"), ("self", "_stream")}

#: methods of builtin containers / str / bytes / int / re / struct: external when no receiver typing says otherwise
BUILTIN_METHODS = {
    "append", "extend", "pop", "insert", "remove", "clear", "sort", "reverse", "copy", "index", "count",
    "update", "setdefault", "get", "items", "keys", "values", "popitem", "add", "discard",
    "join", "split", "rsplit", "splitlines", "strip", "lstrip", "rstrip", "startswith", "endswith", "partition", "rpartition",
    "replace", "format", "encode", "decode", "isalnum", "isalpha", "isdigit", "isnumeric", "islower", "lower", "upper",
    "to_bytes", "from_bytes", "bit_length", "pack", "unpack", "getvalue", "tell", "seek", "group", "groupdict", "start",
    "finditer", "sub", "scan", "open", "debug", "warning", "info", "exec_module", "relative_to", "with_suffix", "write_text",
    "rglob", "is_dir", "is_file", "parse_args", "add_argument", "__setattr__", "__getattribute__", "__new__", "__call__",
    "__init__", "__repr__", "__eq__", "__hash__", "__getitem__", "__add__", "__sub__", "__mul__", "__floordiv__", "__mod__",
    "__pow__", "__lshift__", "__rshift__", "__and__", "__xor__", "__or__", "__func__", "replace_", "cache_clear", "is_integer",
    "__contains__",
}

#: object kinds for ``self`` of instance methods (see DESIGN appendix A)
KIND_SHARED = {
    "cstruct": "one per definition set, referenced by every type as .cs",
    "Expression": "instances are stored as num_entries on array *types*",
    "Field": "elements of cls.__fields__",
    "_overload": "descriptor stored in the class dict of BaseType",
    "TokenCollection": "stored on the parser",
}
KIND_PER_CALL = {
    "BitBuffer": "constructed in _read/_write/reader preamble only (re-validated)",
    "ExpressionTokenizer": "constructed and dropped inside Expression.__init__",
    "_ReadSourceGenerator": "constructed and dropped inside Compiler.compile_read",
    "Compiler": "constructed per compile call",
    "Parser": "constructed per load",
    "TokenParser": "constructed per load",
    "CStyleParser": "constructed per load",
    "TokenConsumer": "constructed per parse",
    "Token": "constructed per scan",
}
KIND_VALUE = {
    "Structure", "Union", "UnionProxy", "Pointer", "Array", "BaseArray", "CharArray", "WcharArray", "BaseType", "Enum", "Flag",
    "Void", "Char", "Wchar", "Int", "Packed", "LEB128",
}

MUTATORS = {
    "append", "extend", "pop", "update", "clear", "insert", "remove", "setdefault", "add", "discard", "popitem", "sort",
    "reverse", "__setitem__", "__delitem__", "appendleft", "popleft",
}
SETATTR_FUNCS = {"setattr", "delattr"}
SETATTR_CHAINS = {("object", "__setattr__"), ("type", "__setattr__"), ("object", "__delattr__"), ("type", "__delattr__")}

#: functions whose result is a *shared* object (mutating it through a local would be a shared write)
RETURNS_SHARED = {"resolve", "_struct", "_get_read_type", "_make_structure__init__", "_make_union__init__", "_make__eq__",
                  "_make__bool__", "_make__hash__"}
FRESH_CALLS = {"BytesIO", "bytearray", "list", "dict", "set", "tuple", "sorted", "bytes", "str", "int", "map", "zip", "chain",
               "sum", "max", "min", "len", "range", "enumerate", "reversed", "iter", "next", "hex", "repr", "ord", "chr",
               "partial", "attrgetter", "property", "classmethod", "dedent", "indent", "compile", "python_compile"}


@dataclass
class Site:
    caller: FuncInfo
    call: ast.Call
    callees: list[FuncInfo]
    how: str  # self | super | typed | idiom | type-object | ctor | name | local | module | external | unresolved


@dataclass
class Effect:
    func: FuncInfo
    node: ast.AST  # statement / call performing the write
    target: str  # normalised target text
    root: str  # root name
    root_class: str  # fresh | param | self-shared | self-value | self-percall | cls | global | alias:<...> | call:<callee>
    what: str  # store | augstore | del | mutator:<name> | setattr


class CallGraph:
    def __init__(self, repo: Repo, extra_functions: list[FuncInfo] | None = None):
        self.repo = repo
        self.sites: list[Site] = []
        self.edges: dict[str, set[str]] = {}
        self.funcs: dict[str, FuncInfo] = {fi.key: fi for fi in repo.all_functions()}
        for fi in extra_functions or []:
            self.funcs[fi.key] = fi
        self.by_name: dict[str, list[FuncInfo]] = {}
        for fi in self.funcs.values():
            self.by_name.setdefault(fi.name, []).append(fi)
        self.unresolved: list[Site] = []
        self.metaclasses = [c for c in repo.classes if "type" in repo.mro(c)]
        self._build()

    # ------------------------------------------------------------------ helpers
    def _families_of_meta(self, meta: str) -> list[str]:
        out = []
        for fam in self.repo.families() + ["BaseType", "BaseArray"]:
            m = self.repo.metaclass_of(fam)
            if m and meta in self.repo.mro(m):
                out.append(fam)
        return out

    def _type_object_methods(self, meth: str) -> list[FuncInfo]:
        seen: dict[str, FuncInfo] = {}
        for fam in self.repo.families() + ["BaseType", "BaseArray"]:
            f = self.repo.lookup_method(fam, meth)
            if f is not None:
                seen[f.key] = f
        return list(seen.values())

    def _class_methods(self, cls: str, meth: str, include_sub: bool = True) -> list[FuncInfo]:
        seen: dict[str, FuncInfo] = {}
        names = [cls] + (self.repo.subclasses(cls) if include_sub else [])
        for c in names:
            f = self.repo.lookup_instance_method(c, meth)
            if f is not None:
                seen[f.key] = f
        return list(seen.values())

    def ctor_targets(self, cls: str) -> list[FuncInfo]:
        """What ``cls(...)`` may run: metaclass __call__, the class's __new__/__init__, Enum._missing_."""
        out: dict[str, FuncInfo] = {}
        meta = self.repo.metaclass_of(cls)
        if meta:
            f = self.repo.lookup_instance_method(meta, "__call__")
            if f:
                out[f.key] = f
        for m in ("__new__", "__init__", "_missing_"):
            f = self.repo.lookup_instance_method(cls, m)
            if f:
                out[f.key] = f
        return list(out.values())

    def local_bindings(self, fi: FuncInfo) -> dict[str, list[ast.AST]]:
        """name -> value expressions bound to it inside ``fi`` (assign, walrus, for-target -> iterable marker)."""
        out: dict[str, list[ast.AST]] = {}
        for n in walk_body(fi.node.body):
            if isinstance(n, ast.Assign):
                for t in n.targets:
                    if isinstance(t, ast.Name):
                        out.setdefault(t.id, []).append(n.value)
                    elif isinstance(t, (ast.Tuple, ast.List)):
                        for e in t.elts:
                            if isinstance(e, ast.Name):
                                out.setdefault(e.id, []).append(ast.Subscript(value=n.value, slice=ast.Constant(0), ctx=ast.Load()))
            elif isinstance(n, ast.AnnAssign) and isinstance(n.target, ast.Name) and n.value is not None:
                out.setdefault(n.target.id, []).append(n.value)
            elif isinstance(n, ast.NamedExpr):
                out.setdefault(n.target.id, []).append(n.value)
            elif isinstance(n, (ast.For, ast.comprehension)):
                tgt = n.target
                names = [tgt] if isinstance(tgt, ast.Name) else [e for e in ast.walk(tgt) if isinstance(e, ast.Name)]
                for e in names:
                    out.setdefault(e.id, []).append(ast.Subscript(value=n.iter, slice=ast.Constant(0), ctx=ast.Load()))
            elif isinstance(n, ast.withitem) and isinstance(n.optional_vars, ast.Name):
                out.setdefault(n.optional_vars.id, []).append(n.context_expr)
        return out

    def class_of_expr(self, fi: FuncInfo, e: ast.AST, binds: dict[str, list[ast.AST]], depth: int = 0) -> str | None:
        """Package class an expression is an *instance* of, when it can be told."""
        if depth > 3:
            return None
        if isinstance(e, ast.Call):
            c = chain(e.func)
            if c and c[-1] in self.repo.classes and c[-1] not in self.metaclasses:
                return c[-1]
            return None
        if isinstance(e, ast.Name):
            ann = fi.annotation(e.id)
            if ann:
                a = ann.replace("type[", "").replace("]", "").split("|")[0].strip()
                if a in self.repo.classes and not ann.startswith("type["):
                    return a
            if e.id == fi.self_name and fi.cls is not None and fi.kind in ("method", "property") and fi.cls.name not in self.metaclasses:
                return fi.cls.name
            for n in walk_body(fi.node.body):
                if isinstance(n, ast.AnnAssign) and isinstance(n.target, ast.Name) and n.target.id == e.id:
                    a = norm(n.annotation)
                    if a in self.repo.classes and a not in self.metaclasses:
                        return a
            for v in binds.get(e.id, []):
                r = self.class_of_expr(fi, v, binds, depth + 1)
                if r:
                    return r
            outer = fi.parent
            while outer is not None:
                ann = outer.annotation(e.id)
                if ann and ann in self.repo.classes:
                    return ann
                outer = outer.parent
        c = chain(e)
        if c:
            if c in CSTRUCT_CHAINS or c[-1] in ("cs", "cstruct"):
                return "cstruct"
            if c[-1] == "num_entries":
                return "Expression"
            if c[-1] in ("TOK",):
                return "TokenCollection"
            if c[-1] in ("bit_buffer", "bit_reader"):
                return "BitBuffer"
            if c[-1] == "tokens" and len(c) == 1:
                return "TokenConsumer"
            if c[-1] == "__union__":
                return "Union"
            if c[-1] == "__target__":
                return "Structure"
        return None

    def is_type_object(self, fi: FuncInfo, e: ast.AST) -> bool:
        c = chain(e)
        if c is None:
            if isinstance(e, ast.Call):
                cc = chain(e.func)
                return bool(cc and cc[-1] in ("resolve", "_get_read_type", "_make_array", "_make_pointer", "_make_type",
                                              "_make_struct", "_make_union", "_struct_", "factory"))
            return False
        if c[-1] in TYPE_OBJECT_SUFFIXES and len(c) > 1:
            return True
        if len(c) == 1 and c[0] in TYPE_OBJECT_NAMES:
            return True
        if len(c) == 1:
            ann = fi.annotation(c[0]) or ""
            if ann.startswith("type["):
                return True
        if len(c) == 1 and c[0] in self.repo.classes and "BaseType" in self.repo.mro(c[0]):
            return True
        return False

    def is_stream(self, fi: FuncInfo, e: ast.AST) -> bool:
        c = chain(e)
        if c is None:
            return False
        if c in STREAM_CHAINS:
            return True
        if len(c) == 1 and c[0] in STREAM_NAMES:
            return True
        if len(c) == 1:
            ann = fi.annotation(c[0]) or ""
            if "BinaryIO" in ann:
                return True
        return False

    # ------------------------------------------------------------------ resolution
    def resolve(self, fi: FuncInfo, call: ast.Call, binds: dict[str, list[ast.AST]]) -> tuple[list[FuncInfo], str]:
        f = call.func
        repo = self.repo
        mod = fi.module
        if isinstance(f, ast.Name):
            name = f.id
            # nested function of this or an enclosing function
            cur: FuncInfo | None = fi
            while cur is not None:
                q = f"{cur.qualname}.<locals>.{name}"
                if q in mod.functions:
                    return [mod.functions[q]], "local"
                cur = cur.parent
            if name == (fi.self_name or "") and fi.kind in ("classmethod",) or (name == fi.self_name and fi.cls and fi.cls.name in self.metaclasses):
                # cls(...)  -> construct an instance of the family
                if fi.kind == "classmethod":
                    fams = [fi.cls.name] + repo.subclasses(fi.cls.name)
                else:
                    fams = self._families_of_meta(fi.cls.name)
                out: dict[str, FuncInfo] = {}
                for fam in fams:
                    for t in self.ctor_targets(fam):
                        out[t.key] = t
                return list(out.values()), "ctor"
            if name in mod.functions and mod.functions[name].kind == "function":
                return [mod.functions[name]], "module"
            if name in repo.classes:
                return self.ctor_targets(name), "ctor"
            # imported module-level function of the package
            cands = [g for g in self.by_name.get(name, []) if g.kind == "function"]
            if cands and name not in ("compile",):
                return cands, "module"
            if name in binds or name in fi.params:
                # calling a local / parameter: a type object ( factory(...), field_type(...) ) or a callable
                if self.is_type_object(fi, f) or name in ("factory",):
                    if name == "factory":
                        return [g for n in ("_make_struct", "_make_union", "_make_enum", "_make_flag") for g in self.by_name.get(n, [])], "idiom"
                    out = {}
                    for fam in repo.families():
                        for t in self.ctor_targets(fam):
                            out[t.key] = t
                    return list(out.values()), "ctor"
                return [], "external"
            return [], "external"
        if not isinstance(f, ast.Attribute):
            return [], "external"
        meth = f.attr
        recv = f.value
        rc = chain(recv)
        # super().m(...)
        if isinstance(recv, ast.Call) and isinstance(recv.func, ast.Name) and recv.func.id == "super" and fi.cls is not None:
            here = fi.cls.name
            if here in self.metaclasses:
                t = repo.lookup_instance_method(here, meth, after=here)
                return ([t] if t else []), "super"
            if fi.kind == "classmethod":
                outs: dict[str, FuncInfo] = {}
                for sub in [here] + repo.subclasses(here):
                    t = repo.lookup_method(sub, meth, after=here)
                    if t:
                        outs[t.key] = t
                return list(outs.values()), "super"
            t = repo.lookup_instance_method(here, meth, after=here)
            return ([t] if t else []), "super"
        # type.__call__(T, ...)  /  T.__new__(T, ...)  /  object.__setattr__
        if rc == ("type",) and meth == "__call__" and call.args:
            out = {}
            tgt = call.args[0]
            tc = chain(tgt)
            fams: list[str]
            if tc and tc[-1] in repo.classes:
                fams = [tc[-1]]
            elif tc and len(tc) == 1 and tc[0] == fi.self_name and fi.cls is not None:
                fams = ([fi.cls.name] + repo.subclasses(fi.cls.name)) if fi.kind == "classmethod" else self._families_of_meta(fi.cls.name)
            else:
                fams = repo.families()
            for fam in fams:
                for m in ("__new__", "__init__"):
                    t = repo.lookup_instance_method(fam, m)
                    if t:
                        out[t.key] = t
            return list(out.values()), "ctor"
        if meth == "__new__" and rc and rc[0] not in ("int", "object", "super", "str", "bytes", "float"):
            out = {}
            for fam in repo.families():
                t = repo.lookup_instance_method(fam, "__new__")
                if t:
                    out[t.key] = t
            return list(out.values()), "ctor"
        if rc and rc[0] in ("int", "object", "type", "str", "bytes", "float", "IntFlag", "IntEnum") and len(rc) == 1:
            return [], "external"
        # self / cls
        if rc and len(rc) == 1 and rc[0] == fi.self_name and fi.cls is not None:
            here = fi.cls.name
            outs = {}
            if here in self.metaclasses:
                for fam in self._families_of_meta(here):
                    t = repo.lookup_method(fam, meth)
                    if t:
                        outs[t.key] = t
                t = repo.lookup_instance_method(here, meth)
                if t:
                    outs[t.key] = t
            elif fi.kind == "classmethod":
                for sub in [here] + repo.subclasses(here):
                    t = repo.lookup_method(sub, meth)
                    if t:
                        outs[t.key] = t
            else:
                for t in self._class_methods(here, meth):
                    outs[t.key] = t
            if outs:
                return list(outs.values()), "self"
            return [], "external"
        # closure variable that is the enclosing method's self (``self`` used inside a nested function)
        if rc and len(rc) == 1 and fi.parent is not None:
            outer = fi.parent
            while outer is not None:
                if rc[0] == outer.self_name and outer.cls is not None:
                    ts = self._class_methods(outer.cls.name, meth)
                    if ts:
                        return ts, "self"
                outer = outer.parent
        # module attribute:  compiler.compile(...)
        if rc and len(rc) == 1 and rc[0] in ("compiler",):
            m = repo.modules.get("compiler.py")
            if m and meth in m.functions:
                return [m.functions[meth]], "module"
        # explicit class:  MetaType.__getitem__(cls, name) / Structure._read.__func__
        if rc and rc[-1] in repo.classes and len(rc) == 1:
            t = repo.lookup_instance_method(rc[0], meth) or repo.lookup_method(rc[0], meth)
            if t:
                return [t], "typed"
        # streams
        if self.is_stream(fi, recv):
            return [], "external"
        # typed receivers
        k = self.class_of_expr(fi, recv, binds)
        if k is not None:
            ts = self._class_methods(k, meth)
            if ts:
                return ts, "typed"
            if k == "cstruct" and meth not in BUILTIN_METHODS:
                # cs.uint8 etc. via __getattr__
                g = repo.lookup_instance_method("cstruct", "__getattr__")
                return ([g] if g else []), "typed"
            return [], "external"
        # type objects: protocol slots and public API across all families
        if self.is_type_object(fi, recv) and (meth in TYPE_API or self._type_object_methods(meth)):
            return self._type_object_methods(meth), "type-object"
        # slots on anything else are still slots
        if meth in SLOTS:
            return self._type_object_methods(meth), "type-object"
        # receivers that are provably builtin containers / strings
        if self._is_builtin_receiver(fi, recv, binds):
            return [], "external"
        cands = [g for g in self.by_name.get(meth, []) if g.kind != "function" and g.kind != "nested"]
        if cands and meth not in BUILTIN_METHODS:
            return cands, "unresolved"
        if cands and meth in BUILTIN_METHODS:
            # a name shared by builtins and the package, untyped receiver: keep the package candidates (sound), count it
            return cands, "unresolved"
        return [], "external"

    def _is_builtin_receiver(self, fi: FuncInfo, recv: ast.AST, binds: dict[str, list[ast.AST]], depth: int = 0) -> bool:
        if depth > 3:
            return False
        if isinstance(recv, (ast.Constant, ast.JoinedStr, ast.List, ast.Dict, ast.Set, ast.Tuple, ast.ListComp, ast.DictComp,
                             ast.SetComp, ast.GeneratorExp, ast.BinOp, ast.Subscript)):
            return True
        if isinstance(recv, ast.Call):
            n = call_name(recv)
            return n in FRESH_CALLS or n in BUILTIN_METHODS or n in ("compile", "getLogger", "Path", "ArgumentParser", "Struct",
                                                                     "spec_from_file_location", "module_from_spec", "Scanner",
                                                                     "getattr", "cast")
        c = chain(recv)
        if c is None:
            return False
        if len(c) == 1:
            vals = binds.get(c[0], [])
            if vals and all(self._is_builtin_receiver(fi, v, binds, depth + 1) for v in vals):
                return True
            ann = fi.annotation(c[0]) or ""
            if ann and any(ann.startswith(p) for p in ("str", "bytes", "int", "list", "dict", "set", "tuple", "bool", "Path",
                                                         "re.", "Iterator", "Iterable", "Callable", "FunctionType", "Palette",
                                                         "Any", "object")):
                return True
            if c[0] in ("re", "struct", "ast", "log", "logging", "io", "sys", "string", "textwrap", "importlib", "types", "pprint",
                        "_ctypes", "functools", "argparse", "os"):
                return True
            return False
        # attribute containers of known classes
        if c[-1] in ("typedefs", "consts", "lookups", "fields", "lookup", "__fields__", "flags", "tokens", "patterns", "field_map",
                     "__dict__", "_member_names_", "_member_map_", "_value2member_map_", "__members__", "expression", "stack",
                     "queue", "match", "value", "string", "loader", "util", "parent", "__code__", "co_names", "name", "_name",
                     "_buf", "_values", "_sizes", "byteorder", "packchar"):
            return True
        if c[0] in ("re", "struct", "ast", "log", "logging", "io", "sys", "string", "textwrap", "importlib", "types", "pprint",
                    "_ctypes", "functools", "argparse", "os"):
            return True
        return False

    def _build(self) -> None:
        for fi in list(self.funcs.values()):
            binds = self.local_bindings(fi)
            tgt: set[str] = self.edges.setdefault(fi.key, set())
            for n in walk_body(fi.node.body):
                if isinstance(n, ast.Call):
                    callees, how = self.resolve(fi, n, binds)
                    site = Site(fi, n, callees, how)
                    self.sites.append(site)
                    if how == "unresolved":
                        self.unresolved.append(site)
                    for c in callees:
                        tgt.add(c.key)
                    # len(x) on a type object / value -> __len__
                    if isinstance(n.func, ast.Name) and n.func.id == "len" and n.args:
                        a = n.args[0]
                        if self.is_type_object(fi, a) or (chain(a) and chain(a)[0] == fi.self_name and len(chain(a)) == 1):
                            for g in self.by_name.get("__len__", []):
                                tgt.add(g.key)
                    # bytes(x) on a union/structure value -> __bytes__
                    if isinstance(n.func, ast.Name) and n.func.id == "bytes" and n.args:
                        for g in self.by_name.get("__bytes__", []):
                            tgt.add(g.key)
                    # getattr / setattr on values may run Pointer.__getattr__ / Union.__setattr__ / UnionProxy.*
                    if isinstance(n.func, ast.Name) and n.func.id == "getattr":
                        for g in self.by_name.get("__getattr__", []):
                            if g.cls is not None and g.cls.name in ("Pointer", "UnionProxy"):
                                tgt.add(g.key)
                    if isinstance(n.func, ast.Name) and n.func.id == "setattr":
                        for g in self.by_name.get("__setattr__", []):
                            tgt.add(g.key)
            # nested functions are reachable from their definer
            for q, g in fi.module.functions.items():
                if g.parent is fi:
                    tgt.add(g.key)

    # ------------------------------------------------------------------ closures
    def closure(self, roots: list[str]) -> set[str]:
        seen: set[str] = set()
        stack = [r for r in roots if r in self.funcs]
        while stack:
            k = stack.pop()
            if k in seen:
                continue
            seen.add(k)
            stack.extend(self.edges.get(k, ()))
        return seen

    def callers_closure(self, targets: set[str]) -> set[str]:
        rev: dict[str, set[str]] = {}
        for a, bs in self.edges.items():
            for b in bs:
                rev.setdefault(b, set()).add(a)
        seen = set()
        stack = list(targets)
        while stack:
            k = stack.pop()
            if k in seen:
                continue
            seen.add(k)
            stack.extend(rev.get(k, ()))
        return seen

    def path(self, roots: list[str], target: str) -> list[str]:
        """A shortest call path from any root to target (for diagnosable reports)."""
        from collections import deque

        prev: dict[str, str | None] = {}
        dq = deque()
        for r in roots:
            if r in self.funcs and r not in prev:
                prev[r] = None
                dq.append(r)
        while dq:
            k = dq.popleft()
            if k == target:
                out = []
                cur: str | None = k
                while cur is not None:
                    out.append(cur)
                    cur = prev[cur]
                return list(reversed(out))
            for b in sorted(self.edges.get(k, ())):
                if b not in prev:
                    prev[b] = k
                    dq.append(b)
        return []


# ---------------------------------------------------------------------------------------------------------------
# entry points

def entry_points(repo: Repo) -> dict[str, list[str]]:
    parse: list[str] = []
    dump: list[str] = []
    define: list[str] = []
    for fi in repo.all_functions():
        n = fi.name
        if fi.kind == "nested":
            continue
        if n in ("_read", "_read_array", "_read_0", "read", "reads", "_read_fields", "dereference") and fi.cls is not None:
            if fi.cls.name in ("BitBuffer", "TokenConsumer"):
                continue
            parse.append(fi.key)
        elif n == "__call__" and fi.cls is not None and fi.cls.name in ("MetaType", "StructureMetaType", "UnionMetaType", "EnumMetaType"):
            parse.append(fi.key)
        elif n in ("_write", "_write_array", "_write_0", "write", "dumps", "__bytes__") and fi.cls is not None:
            if fi.cls.name in ("BitBuffer",):
                continue
            dump.append(fi.key)
        elif fi.cls is not None and fi.cls.name in ("Union", "UnionProxy") and n in ("_rebuild", "_update", "__setattr__", "_proxify"):
            dump.append(fi.key)
        elif fi.cls is not None and fi.cls.name == "Structure" and n == "__len__":
            dump.append(fi.key)
        elif fi.cls is not None and fi.cls.name == "Pointer" and n in ("__getattr__", "__str__") :
            parse.append(fi.key)
        if fi.cls is not None and fi.cls.name == "cstruct" and (n.startswith("load") or n.startswith("add_") or n.startswith("_make_") or n == "__init__"):
            define.append(fi.key)
        elif fi.cls is not None and fi.cls.name in ("TokenParser", "CStyleParser", "Compiler", "_ReadSourceGenerator"):
            define.append(fi.key)
        elif fi.cls is not None and fi.cls.name in ("StructureMetaType", "UnionMetaType") and n in (
            "__new__", "_update_fields", "commit", "add_field", "start_update", "_calculate_size_and_offsets"):
            define.append(fi.key)
    return {"PARSE": sorted(set(parse)), "DUMP": sorted(set(dump)), "DEFINE": sorted(set(define))}
