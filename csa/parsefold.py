"""Fold of the token parser: ``TokenParser(cs).parse(text)`` is interpreted (whitelist evaluator; the repository's classes TokenParser, Token,
TokenCollection and TokenConsumer are instantiated from their ``ClassDef``s, its regular expressions are run by ``re`` on the checker's own
strings) against a model cstruct object that records what the parser defines.

Two kinds of obligations:
* reference - a definition text that uses every construct of the language once (constants incl. expressions, enums and flags with implicit and
  explicit values, an anonymous enum, structures with scalar / array / pointer / bit-field / nested / anonymous members, expression-sized and
  multi-dimensional arrays, a union, typedefs of scalars / pointers / arrays / structures with several names, a self-referencing structure, a
  lookup) must produce exactly the expected tables;
* metamorphic - the same text with comments inserted, with its spacing changed, and with unrelated definitions reordered must produce the same
  tables (C13: parsing ignores comments, spacing and the order of unrelated definitions).
"""

from __future__ import annotations

import ast
import re
from typing import Any

from .folds import repo_exception_parents
from .minieval import ClassObj, Evaluator, Exhausted, Host, Raised, Refused, Sym, UserFunc
from .model import Repo

BUILTINS = {"uint8": 1, "uint16": 2, "uint32": 4, "uint64": 8, "int8": 1, "int32": 4, "char": 1, "wchar": 2}


class ModelCS:
    """What the parser talks to: typedef / constant / lookup tables and the type factories, all recording."""

    def __init__(self) -> None:
        self.n_anon = 0
        self.types: dict[str, Sym] = {}
        self.sym = Sym("cs", {"consts": {}, "typedefs": {}, "lookups": {}, "pointer": None, "endian": "<"})
        self.sym.strict = True
        for n, sz in BUILTINS.items():
            self.sym.attrs["typedefs"][n] = self._mk("builtin", n, size=sz)
        self.sym.attrs["typedefs"].update({"unsigned int": "uint32", "unsigned long long": "uint64", "signed char": "int8"})
        self.sym.attrs["pointer"] = self.sym.attrs["typedefs"]["uint64"]
        m = self.sym.methods
        m["resolve"] = Host(self.resolve)
        m["add_type"] = Host(self.add_type)
        m["_make_struct"] = Host(lambda name, fields, align=False, anonymous=False: self._struct("struct", name, fields, align, anonymous))
        m["_make_union"] = Host(lambda name, fields, align=False, anonymous=False: self._struct("union", name, fields, align, anonymous))
        m["_make_enum"] = Host(lambda name, type_, values: self._enum("enum", name, type_, values))
        m["_make_flag"] = Host(lambda name, type_, values: self._enum("flag", name, type_, values))
        m["_make_array"] = Host(lambda type_, count: self._mk("array", f"{type_.attrs['__name__']}[]", type=type_, num_entries=count))
        m["_make_pointer"] = Host(lambda type_: self._mk("pointer", f"{type_.attrs['__name__']}*", type=type_))
        m["_next_anonymous"] = Host(self._next_anonymous)

    def _mk(self, kind: str, name: str, **attrs: Any) -> Sym:
        t = Sym(f"type:{kind}:{name}:{len(self.types)}", {"__name__": name, "__qualname__": name, "__kind__": kind, "__anonymous__": False, **attrs})
        t.strict = True
        self.types[t.label] = t
        return t

    def _next_anonymous(self) -> str:
        self.n_anon += 1
        return f"__anonymous_{self.n_anon - 1}__"

    def _struct(self, kind: str, name: str, fields: list, align: bool, anonymous: bool) -> Sym:
        t = self._mk(kind, name, __fields__=list(fields), __align__=bool(align))
        t.attrs["__anonymous__"] = bool(anonymous)
        t.methods["commit"] = Host(lambda: None)
        t.methods["add_field"] = Host(lambda name, type_, bits=None, offset=None: t.attrs["__fields__"].append(field(name, type_, bits, offset)))
        return t

    def _enum(self, kind: str, name: str, type_: Sym, values: dict) -> Sym:
        t = self._mk(kind, name, type=type_)
        t.attrs["__members__"] = {k: ("member", name, k, v) for k, v in values.items()}
        return t

    def resolve(self, name: Any) -> Any:
        n = 0
        first = name
        while isinstance(name, str):
            if name not in self.sym.attrs["typedefs"] or n > 10:
                raise Raised(f"ResolveError('Unknown type {first}')")
            name = self.sym.attrs["typedefs"][name]
            n += 1
        return name

    def add_type(self, name: str, type_: Any, replace: bool = False) -> None:
        td = self.sym.attrs["typedefs"]
        if not replace and name in td and self.resolve(td[name]) is not self.resolve(type_):
            raise Raised(f"ValueError('Duplicate type: {name}')")
        td[name] = type_


def field(name: Any, type_: Any, bits: Any = None, offset: Any = None) -> Sym:
    f = Sym(f"field:{name}", {"name": name, "_name": name, "type": type_, "bits": bits, "offset": offset})
    f.strict = True
    return f


def c_int(tok: str) -> int | None:
    t = tok.rstrip("uUlL")
    if re.fullmatch(r"0[xX][0-9a-fA-F]+", t):
        return int(t, 16)
    if re.fullmatch(r"0[bB][01]+", t):
        return int(t, 2)
    if re.fullmatch(r"0[0-7]+", t):
        return int(t, 8)
    if re.fullmatch(r"[0-9]+", t):
        return int(t)
    return None


def expression_host(model: ModelCS):
    """Stand-in for Expression(cs, text): tokens as whole words, evaluation with C literals over the context, then the constants (the evaluator
    itself is decided by the C10 rules)."""

    def make(cs_: Any, text: str) -> Sym:
        toks = re.findall(r"[A-Za-z_][A-Za-z0-9_]*|0[xX][0-9a-fA-F]+|[0-9]+[uUlL]*|<<|>>|\S", text)

        def evaluate(context: Any = None) -> int:
            src = []
            i = 0
            while i < len(toks):
                t = toks[i]
                ci = c_int(t)
                if ci is not None:
                    src.append(str(ci))
                elif t == "sizeof":
                    j = toks.index(")", i)
                    tn = " ".join(toks[i + 2:j])
                    ty = model.resolve(tn)
                    sz = ty.attrs.get("size")
                    if sz is None:
                        raise Raised("ExpressionParserError('sizeof of a dynamic type')")
                    src.append(str(sz))
                    i = j
                elif re.fullmatch(r"[A-Za-z_]\w*", t):
                    consts = model.sym.attrs["consts"]
                    if context and t in context:
                        v = context[t]
                    elif t in consts:
                        v = consts[t]
                    else:
                        raise Raised(f"ExpressionParserError('Unmatched token: {t}')")
                    v = v[3] if isinstance(v, tuple) and v and v[0] == "member" else v
                    if not isinstance(v, int):
                        raise Raised("ExpressionParserError('not a number')")
                    src.append(str(v))
                elif t in "+-*/()%&|^~" or t in ("<<", ">>"):
                    src.append("//" if t == "/" else t)
                else:
                    raise Raised("ExpressionTokenizerError('bad token')")
                i += 1
            try:
                return int(eval(compile(ast.parse(" ".join(src), mode="eval"), "<expr>", "eval"), {"__builtins__": {}}, {}))  # the checker's own arithmetic
            except (SyntaxError, ZeroDivisionError, TypeError) as e:
                raise Raised(f"ExpressionParserError('{type(e).__name__}')") from e

        return Sym(f"expr:{text.strip()}", {"tokens": list(toks), "expression": text}, {"evaluate": Host(evaluate)})

    return make


class Harness:
    def __init__(self, repo: Repo):
        self.repo = repo
        self.mod = repo.module("parser.py")
        if "TokenParser" not in {n.name for n in self.mod.tree.body if isinstance(n, ast.ClassDef)}:
            raise Refused("TokenParser class not found")
        self.parents = repo_exception_parents(repo)

    def env(self, model: ModelCS) -> dict[str, Any]:
        struct_cls, array_cls = Sym("class:Structure"), Sym("class:BaseArray")

        def issub(t: Any, k: Any) -> bool:
            if not (isinstance(t, Sym) and "__kind__" in t.attrs):
                raise TypeError("issubclass() arg 1 must be a class")
            ks = k if isinstance(k, tuple) else (k,)
            kind = t.attrs["__kind__"]
            return (struct_cls in ks and kind in ("struct", "union")) or (array_cls in ks and kind == "array")

        def lit(text: Any) -> Any:
            try:
                return ast.literal_eval(text)
            except (ValueError, SyntaxError, TypeError, MemoryError, RecursionError) as e:
                raise (ValueError if not isinstance(e, SyntaxError) else SyntaxError)(str(e)) from None

        def re_compile(pattern: str, flags: int = 0):
            return re.compile(pattern, flags)

        re_sym = Sym("re", {k: int(getattr(re, k)) for k in ("MULTILINE", "DOTALL", "IGNORECASE", "VERBOSE", "M", "S", "I", "X")},
                     {"compile": Host(re_compile), "Scanner": Host(lambda lexicon, flags=0: re.Scanner(list(lexicon), flags)),
                      "match": Host(lambda p, s_, flags=0: re.match(p, s_, flags)), "search": Host(lambda p, s_, flags=0: re.search(p, s_, flags)),
                      "sub": Host(lambda p, r, s_, count=0, flags=0: re.sub(p, r, s_, count=count, flags=flags)),
                      "findall": Host(lambda p, s_, flags=0: re.findall(p, s_, flags)), "escape": Host(re.escape)})
        env: dict[str, Any] = {
            "re": re_sym, "ast": Sym("ast", {}, {"literal_eval": Host(lit)}), "issubclass": Host(issub), "Structure": struct_cls, "BaseArray": array_cls,
            "Field": Host(field), "Expression": Host(expression_host(model)), "compiler": Sym("compiler", {}, {"compile": Host(self._compile)}),
            "object": Sym("object", {}, {"__getattribute__": Host(self._object_getattribute)}), "__exc_parents__": self.parents,
            "int": int, "str": str, "len": len, "TYPE_CHECKING": False, "__name__": "dissect.cstruct.parser",
        }
        for st in self.mod.tree.body:
            if isinstance(st, ast.FunctionDef):
                env[st.name] = UserFunc(st, env)
            elif isinstance(st, ast.ClassDef):
                env[st.name] = ClassObj(st, env)
        return env

    @staticmethod
    def _compile(st: Any) -> Any:
        # the model records that a compiled reader was requested for this structure (at this moment: with the fields it has now)
        if isinstance(st, Sym):
            st.attrs["__compile_requests__"] = [*st.attrs.get("__compile_requests__", []), len(st.attrs.get("__fields__", []))]
        return st

    def compile_requests(self, text: str, **kw: Any) -> dict | None:
        """name -> number of compile requests, for every structure / union the parser made from ``text`` (None when the text is refused)."""
        model = ModelCS()
        env = self.env(model)
        try:
            parser = Evaluator(env, steps=400000)
            inst = parser.ev(ast.parse("TokenParser(cs, **kw)", mode="eval").body, {**env, "cs": model.sym, "kw": kw})
            parser.call_user(inst.methods["parse"], [inst, text], {})
        except Raised:
            return None
        return {t.attrs["__name__"]: len(t.attrs.get("__compile_requests__", [])) for t in model.types.values() if t.attrs.get("__kind__") == "struct"}

    @staticmethod
    def _object_getattribute(o: Any, name: str) -> Any:
        if isinstance(o, Sym):
            if name in o.attrs:
                return o.attrs[name]
            if name in o.methods:
                return ("symmethod", o, name)
        raise AttributeError(name)

    def parse(self, text: str, **kw: Any) -> dict:
        """Canonical tables after parsing ``text`` (or {'error': ...})."""
        model = ModelCS()
        env = self.env(model)
        try:
            parser = Evaluator(env, steps=400000)
            inst = parser.ev(ast.parse("TokenParser(cs, **kw)", mode="eval").body, {**env, "cs": model.sym, "kw": kw})
            parser.call_user(inst.methods["parse"], [inst, text], {})
        except Raised as e:
            return {"error": str(e).split("(")[0].split(":")[0].strip()}
        return canon_tables(model)


def canon_type(t: Any, depth: int = 0, by_name: bool = False) -> Any:
    if isinstance(t, str):
        return ("alias", t)
    if not isinstance(t, Sym):
        return ("?", repr(t))
    kind = t.attrs.get("__kind__")
    name = t.attrs.get("__name__")
    shown = "<anonymous>" if re.fullmatch(r"__anonymous_\d+__", name or "") else name
    if kind == "builtin":
        return name
    if kind in ("struct", "union"):
        if by_name or depth > 6:
            return (kind, shown)
        return (kind, shown, bool(t.attrs.get("__anonymous__")), bool(t.attrs.get("__align__")),
                tuple((f.attrs["name"], canon_type(f.attrs["type"], depth + 1, by_name=f.attrs["type"] is t), f.attrs["bits"]) for f in t.attrs["__fields__"]))
    if kind == "array":
        n = t.attrs["num_entries"]
        n = ("expr", " ".join(n.attrs["tokens"])) if isinstance(n, Sym) else n
        return ("array", canon_type(t.attrs["type"], depth + 1, by_name), n)
    if kind == "pointer":
        return ("pointer", canon_type(t.attrs["type"], depth + 1, by_name=True))
    if kind in ("enum", "flag"):
        return (kind, name, canon_type(t.attrs["type"]), tuple((k, v[3]) for k, v in t.attrs["__members__"].items()))
    return ("?", kind)


def canon_tables(model: ModelCS) -> dict:
    td = {k: canon_type(v) for k, v in model.sym.attrs["typedefs"].items() if k not in BUILTINS and k not in ("unsigned int", "unsigned long long", "signed char")}
    consts = {k: (("member", v[1], v[3]) if isinstance(v, tuple) and v and v[0] == "member" else v) for k, v in model.sym.attrs["consts"].items()}
    return {"typedefs": td, "consts": consts, "lookups": dict(model.sym.attrs["lookups"])}


# ---------------------------------------------------------------------------------------------------------------- the definition texts
BLOCKS = {
    "consts": """
#define MAGIC 0x1234
#define COUNT 3
#define TOTAL (COUNT * 2 + 1)
#define NAME "text"
#define count 2
""",
    "color": """
enum Color : uint8 {
    RED,
    GREEN = 5,
    BLUE,
    BACK = 0,
    AGAIN
};
""",
    "perm": """
flag Perm : uint16 {
    R = 4,
    W,
    X = 0x40,
    RW = 6,
    NEXT
};
""",
    "anon_enum": """
enum : uint32 {
    ANON_A = 010,
    ANON_B
};
""",
    "point": """
struct point {
    uint16 x;
    uint16 y;
};
""",
    "packet": """
struct packet {
    uint8   kind:3;
    uint8   flags:5;
    uint16  length;
    char    tag[4];
    uint8   data[length];
    uint32  grid[2][COUNT];
    point   origin;
    point   *next;
    Color   color;
    struct {
        uint8 lo;
        uint8 hi;
    } inner;
    struct {
        uint32 word;
    };
    char    name[];
    uint8   tail [ 010 ];
    uint8   zero[0];
    uint8   oct[010];
    unsigned int    ui;
    unsigned long long big;
};
""",
    "shadow": """
struct shadow {
    uint8   count;
    uint8   d[count];
    uint8   e[COUNT];
    uint8   f[count * 2];
};
""",
    "redef": """
#define N 2
struct first_n {
    char    x[N];
};
#define N 4
struct second_n {
    char    y[N];
};
""",
    "value": """
union value {
    uint32  num;
    char    text[4];
};
""",
    "node": """
struct node {
    uint8   id;
    node    *next;
};
""",
    "wrap": """
struct wrap {
    struct inner_tag {
        uint8 a;
    } in;
    uint8   after;
};
""",
    "typedefs": """
typedef uint32 DWORD;
typedef uint8 * PBYTE;
typedef char name_t[16];
typedef struct _HEADER {
    DWORD magic;
} HEADER, HEADER2;
typedef struct _LINK {
    uint8 v;
} *PLINK;
typedef struct {
    uint8 only;
} solo_t, solo2_t;
""",
}
ORDER = ["consts", "color", "perm", "anon_enum", "point", "packet", "value", "node", "wrap", "typedefs", "shadow", "redef"]
# packet needs consts, color and point before it; typedefs stand alone; the others are unrelated to each other
REORDERED = [["color", "consts", "point", "perm", "node", "redef", "packet", "typedefs", "value", "wrap", "shadow", "anon_enum"],
             ["wrap", "typedefs", "redef", "node", "value", "anon_enum", "perm", "point", "color", "consts", "shadow", "packet"]]


def base_text(order: list[str] | None = None) -> str:
    return "\n".join(BLOCKS[k] for k in (order or ORDER))


def with_comments(text: str) -> str:
    out = []
    for i, line in enumerate(text.splitlines()):
        if line.startswith("#define"):
            out.append("/* before a define */")
            out.append(line)
            continue
        s = line
        if s.strip() and i % 2 == 0:
            s = s + "   // trailing, with a comma, a ; and a } in it"
        if s.strip().endswith("{") and i % 3 == 0:
            s = s + " /* struct { uint8 fake; }; */"
        out.append(s)
        if i % 5 == 0:
            out.append("/* a comment\n   over several lines, with a 'quote\n*/")
        if i % 7 == 0:
            out.append("/*** a banner ***/")
            out.append("/* a ** b *** c */")
    return "\n".join(out)


def with_spacing(text: str) -> str:
    out = []
    for line in text.splitlines():
        if line.startswith("#define"):
            out.append(line)
            continue
        s = line.replace("    ", "\t ").replace(";", " ;").replace("{", " {").replace(",", " , ")
        s = re.sub(r"\[(\w+)\]", r"[ \1 ]", s)
        s = s.replace("unsigned int", "unsigned   int").replace("unsigned long long", "unsigned\tlong  long")
        out.append("   " + s + "  ")
        out.append("")
    return "\n".join(out)


def expected_tables() -> dict:
    point = ("struct", "point", False, False, (("x", "uint16", None), ("y", "uint16", None)))
    color = ("enum", "Color", "uint8", (("RED", 0), ("GREEN", 5), ("BLUE", 6), ("BACK", 0), ("AGAIN", 1)))
    inner = ("struct", "<anonymous>", True, False, (("lo", "uint8", None), ("hi", "uint8", None)))
    anon = ("struct", "<anonymous>", True, False, (("word", "uint32", None),))
    packet = ("struct", "packet", False, False, (
        ("kind", "uint8", 3), ("flags", "uint8", 5), ("length", "uint16", None), ("tag", ("array", "char", 4), None),
        ("data", ("array", "uint8", ("expr", "length")), None), ("grid", ("array", ("array", "uint32", 3), 2), None), ("origin", point, None),
        ("next", ("pointer", ("struct", "point")), None), ("color", color, None), ("inner", inner, None), (None, anon, None),
        ("name", ("array", "char", None), None), ("tail", ("array", "uint8", 8), None), ("zero", ("array", "uint8", 0), None), ("oct", ("array", "uint8", 8), None), ("ui", "uint32", None),
        ("big", "uint64", None)))
    header = ("struct", "_HEADER", False, False, (("magic", "uint32", None),))
    solo = ("struct", "solo_t", False, False, (("only", "uint8", None),))
    return {
        "consts": {"MAGIC": 0x1234, "COUNT": 3, "TOTAL": 7, "NAME": "text", "count": 2, "N": 4, "ANON_A": ("member", "", 8), "ANON_B": ("member", "", 9)},
        "lookups": {},
        "typedefs": {
            "Color": color, "Perm": ("flag", "Perm", "uint16", (("R", 4), ("W", 8), ("X", 0x40), ("RW", 6), ("NEXT", 8))), "point": point, "packet": packet,
            "value": ("union", "value", False, False, (("num", "uint32", None), ("text", ("array", "char", 4), None))),
            "node": ("struct", "node", False, False, (("id", "uint8", None), ("next", ("pointer", ("struct", "node")), None))),
            # a tag declared in place names the nested structure but is not registered: 'inner_tag' is no typedef
            "wrap": ("struct", "wrap", False, False, (("in", ("struct", "inner_tag", False, False, (("a", "uint8", None),)), None), ("after", "uint8", None))),
            "DWORD": "uint32", "PBYTE": ("pointer", "uint8"), "name_t": ("array", "char", 16), "_HEADER": header, "HEADER": header, "HEADER2": header,
            "_LINK": ("struct", "_LINK", False, False, (("v", "uint8", None),)), "PLINK": ("pointer", ("struct", "_LINK")), "solo_t": solo, "solo2_t": solo,
            "shadow": ("struct", "shadow", False, False, (("count", "uint8", None), ("d", ("array", "uint8", ("expr", "count")), None), ("e", ("array", "uint8", 3), None),
                                                        ("f", ("array", "uint8", ("expr", "count * 2")), None))),
            "first_n": ("struct", "first_n", False, False, (("x", ("array", "char", 2), None),)),
            "second_n": ("struct", "second_n", False, False, (("y", ("array", "char", 4), None),)),
        },
    }


ERROR_TEXTS = {
    "a duplicate type name": ("struct a { uint8 x; };\nstruct a { uint16 y; };\n", "ValueError"),
    "an unknown field type": ("struct a { nosuch x; };\n", "ResolveError"),
    "an unknown type behind the struct keyword": ("struct a { struct nosuch x; };\n", "ResolveError"),
    "a typedef with a bit field": ("typedef uint8 bad:3;\n", "ParserError"),
    "a duplicate typedef tag": ("typedef uint32 handle;\ntypedef struct handle { uint8 x; } other;\n", "ValueError"),
}


def fold_parser(repo: Repo) -> dict | None:
    out: dict = {"cases": 0, "bad": [], "refused": None}
    try:
        h = Harness(repo)
        base = h.parse(base_text())
        out["cases"] += 1
        want = expected_tables()
        if "error" in base:
            out["bad"].append(("reference", f"the definition text is refused with {base['error']}"))
            return out
        for tbl in ("consts", "typedefs", "lookups"):
            for k in sorted(set(base[tbl]) | set(want[tbl]), key=str):
                if base[tbl].get(k, "<missing>") != want[tbl].get(k, "<missing>"):
                    out["bad"].append(("reference", f"{tbl}[{k!r}] is {str(base[tbl].get(k, '<missing>'))[:160]}, expected {str(want[tbl].get(k, '<missing>'))[:160]}"))
        variants = [("comments inserted", with_comments(base_text())), ("spacing changed", with_spacing(base_text())),
                    ("comments and spacing", with_comments(with_spacing(base_text())))]
        variants += [(f"unrelated definitions reordered ({i + 1})", base_text(o)) for i, o in enumerate(REORDERED)]
        for label, text in variants:
            got = h.parse(text)
            out["cases"] += 1
            if "error" in got:
                out["bad"].append((label, f"refused with {got['error']} although the plain text is accepted"))
                continue
            for tbl in ("consts", "typedefs", "lookups"):
                if got[tbl] != base[tbl]:
                    ks = [k for k in sorted(set(got[tbl]) | set(base[tbl]), key=str) if got[tbl].get(k, "<missing>") != base[tbl].get(k, "<missing>")]
                    k = ks[0]
                    out["bad"].append((label, f"{tbl}[{k!r}] becomes {str(got[tbl].get(k, '<missing>'))[:140]} (plain text: {str(base[tbl].get(k, '<missing>'))[:140]})"))
                    break
        for label, (text, want_err) in ERROR_TEXTS.items():
            got = h.parse(text)
            out["cases"] += 1
            if got.get("error") != want_err:
                out["bad"].append((label, f"{'accepted' if 'error' not in got else 'raises ' + got['error']}, expected {want_err}"))
        nested = "struct outer {\n    struct tagged { uint8 a; uint32 b; } t;\n    struct { uint8 c; uint32 d; } u;\n    union { uint8 e; uint32 f; } v;\n};\n"
        for kw, label in (({"align": True}, "align=True"), ({"compiled": False}, "compiled=False")):
            got = h.parse(BLOCKS["point"] + nested, **kw)
            out["cases"] += 1
            want_align = bool(kw.get("align"))
            o_ = got.get("typedefs", {}).get("outer")
            flags = [got.get("typedefs", {}).get("point", (0, 0, 0, None))[3]] + ([o_[3]] + [f_[1][3] for f_ in o_[4]] if o_ else [None])
            if any(x is not want_align for x in flags):
                out["bad"].append((label, f"structures (point, outer, its tagged / anonymous / union members) are created with align = {flags}, expected {want_align} for all"))
        # the compiled option and the #[nocompile] flag: a reader is requested for exactly the structures that are to be compiled - also when the
        # structure holds nested definitions (each of which ends by resetting the flags) and when it is pre-registered for self reference
        flag_text = ("struct before { uint8 p; };\n#[nocompile]\nstruct declined {\n    struct { uint8 c; } u;\n    struct tagged2 { uint8 d; } w;\n    uint8 z;\n};\n"
                     "struct after {\n    struct { uint8 e; } v;\n    uint8 q;\n};\n")
        for kw, label, want in (({}, "compiled (default), one structure under #[nocompile]", {"before": True, "declined": False, "after": True}),
                                ({"compiled": False}, "compiled=False", {"before": False, "declined": False, "after": False})):
            got = h.compile_requests(flag_text, **kw)
            out["cases"] += 1
            if got is None:
                out["bad"].append(("options", f"{label}: the text is refused"))
                continue
            wrong = {n_: bool(got.get(n_)) for n_ in want if bool(got.get(n_)) != want[n_]}
            if wrong:
                out["bad"].append(("options", f"{label}: a compiled reader is requested for {{name: requested}} = {wrong}, expected {want}"))
        return out
    except (Refused, Exhausted) as e:
        out["refused"] = str(e)
        return None
    except (TypeError, KeyError, IndexError, ValueError, AttributeError, AssertionError, re.error) as e:
        out["refused"] = f"{type(e).__name__}: {e}"
        return None
