"""Command line:  python -m csa check <Cnn> [--tier quick|thorough]   |   python -m csa all   |   python -m csa selftest"""

from __future__ import annotations

import argparse
import importlib
import os
import sys
import traceback

from .model import Repo
from .report import Report, finish
from .util import AnalysisError

CLAIMED = [f"C{n:02d}" for n in range(1, 21) if n != 19]


def analyse(prop: str, tier: str, root: str | None = None) -> Report:
    """Run the rules of one property and return the report (raises AnalysisError)."""
    mod = importlib.import_module(f"csa.rules.{prop.lower()}")
    repo = Repo(root)
    rep = Report(prop, tier)
    rep.info["repo_digest"] = repo.digest()
    rep.info["modules_parsed"] = len(repo.modules)
    rep.info["functions_parsed"] = sum(len(m.functions) for m in repo.modules.values())
    rep.info["normalisation"] = {k: v for k, v in repo.normalisation.items() if any(v.values())}
    try:
        mod.run(repo, rep, tier)
    except AnalysisError as e:
        # an anchor that vanished *after* a rule already reported a violation is explained by that violation (e.g. the writer no longer walks
        # cls.__fields__): report the violation; without one the analysis is broken
        if not any(not it.ok for it in rep.items):
            raise
        rep.notes.append(f"analysis stopped early: {e}")
        rep.info["aborted"] = str(e)
        return rep
    rep.enforce_floors()
    if not rep.items:
        raise AnalysisError("no obligations were generated")
    return rep


def run_check(prop: str, tier: str, root: str | None = None, quiet: bool = False) -> int:
    seed = int(os.environ.get("VERIF_SEED", "0") or 0)
    try:
        importlib.import_module(f"csa.rules.{prop.lower()}")
    except ModuleNotFoundError:
        print(f"ANALYSIS-ERROR property={prop} no rules implemented for this property")
        return 2
    except Exception as e:  # a broken rule module is a broken checker, never a violation
        traceback.print_exc()
        print(f"ANALYSIS-ERROR property={prop} rule module does not load: {type(e).__name__}: {e}")
        return 2
    try:
        rep = analyse(prop, tier, root)
        if tier == "thorough" and root is None:
            from .selftest import sensitivity_audit

            rep.info["sensitivity"] = sensitivity_audit(prop)
        rc = finish(rep, seed)
        if rc == 0 and rep.info.get("aborted"):
            print(f"ANALYSIS-ERROR property={prop} {rep.info['aborted']}")
            return 2
        return rc
    except AnalysisError as e:
        print(f"ANALYSIS-ERROR property={prop} {e}")
        return 2
    except Exception as e:  # a crash of the checker is never a violation
        traceback.print_exc()
        print(f"ANALYSIS-ERROR property={prop} checker crashed: {type(e).__name__}: {e}")
        return 2


def main(argv: list[str] | None = None) -> int:
    ap = argparse.ArgumentParser(prog="csa")
    sub = ap.add_subparsers(dest="cmd", required=True)
    c = sub.add_parser("check")
    c.add_argument("prop")
    c.add_argument("--tier", default=os.environ.get("VERIF_TIER", "quick"), choices=["quick", "thorough"])
    c.add_argument("--root", default=None)
    a = sub.add_parser("all")
    a.add_argument("--tier", default="quick", choices=["quick", "thorough"])
    a.add_argument("--root", default=None)
    s = sub.add_parser("selftest")
    s.add_argument("--jobs", type=int, default=16)
    s.add_argument("--only", default=None)
    args = ap.parse_args(argv)

    if args.cmd == "check":
        return run_check(args.prop.upper(), args.tier, args.root)
    if args.cmd == "all":
        worst = 0
        for p in CLAIMED:
            rc = run_check(p, args.tier, args.root)
            worst = max(worst, rc)
        return worst
    if args.cmd == "selftest":
        from .selftest import main as st_main

        return st_main(jobs_n=args.jobs, only=args.only)
    return 2


if __name__ == "__main__":
    sys.exit(main())
