"""Evaluate seeded breakages (patch + demo) against the checks.

usage: tools_seed.py <dir-with patch_k.diff/demo_k.py/note_k.txt> [--keep-as <name-prefix>] [--no-tests]

For every patch_k.diff:  copy /repo to a scratch directory (outside /repo and /verif, removed afterwards), confirm that
  * the demo passes on the pristine copy,
  * the patch applies, the package byte-compiles, the full test suite passes (500), the demo FAILS with the patch,
then run every claimed check against the patched copy (``--root``) and list which rules fire.
With --keep-as the confirmed ones are stored as /verif/seeded/<prefix>-k/{patch.diff,demo.py,meta.json}.
Nothing is ever applied to /repo itself.
"""

from __future__ import annotations

import glob
import json
import os
import re
import shutil
import subprocess
import sys
import tempfile

PY = "/venv/bin/python"
CLAIMED = [f"C{n:02d}" for n in range(1, 21) if n != 19]


def sh(cmd, cwd=None, env=None, timeout=900):
    return subprocess.run(cmd, cwd=cwd, env=env, capture_output=True, text=True, timeout=timeout)


def fresh_copy() -> str:
    d = tempfile.mkdtemp(prefix="csa_seed_")
    for item in ("dissect", "tests", "pyproject.toml", "tox.ini"):
        src = os.path.join("/repo", item)
        if os.path.isdir(src):
            shutil.copytree(src, os.path.join(d, item), ignore=shutil.ignore_patterns("__pycache__"))
        elif os.path.exists(src):
            shutil.copy(src, d)
    return d


def evaluate(patch: str, demo: str | None, run_tests: bool = True) -> dict:
    res: dict = {"patch": patch}
    d = fresh_copy()
    env = {**os.environ, "PYTHONPATH": d, "PYTHONDONTWRITEBYTECODE": "1"}
    try:
        if demo:
            r = sh([PY, demo], cwd=d, env=env)
            res["demo_pristine_rc"] = r.returncode
        r = sh(["git", "apply", "--unsafe-paths", "--directory", d, patch], cwd=d)
        if r.returncode != 0:
            r = sh(["patch", "-p1", "-s", "-d", d, "-i", patch])
        res["applies"] = r.returncode == 0
        if not res["applies"]:
            res["apply_error"] = (r.stdout + r.stderr)[-300:]
            return res
        r = sh([PY, "-m", "compileall", "-q", os.path.join(d, "dissect")], cwd=d, env={**env, "PYTHONDONTWRITEBYTECODE": ""})
        res["compiles"] = r.returncode == 0
        if run_tests:
            r = sh([PY, "-m", "pytest", "-q", "-p", "no:cacheprovider", "-x", "-n", "4"], cwd=d, env=env)
            m = re.search(r"(\d+) passed", r.stdout)
            res["tests_passed"] = int(m.group(1)) if m else 0
            res["tests_ok"] = r.returncode == 0 and res["tests_passed"] >= 500
            if not res["tests_ok"]:
                res["tests_tail"] = r.stdout[-400:]
        if demo:
            r = sh([PY, demo], cwd=d, env=env)
            res["demo_patched_rc"] = r.returncode
            res["demo_tail"] = (r.stdout + r.stderr)[-300:]
        fired: dict[str, list[str]] = {}
        status: dict[str, int] = {}
        ev = tempfile.mkdtemp(prefix="csa_seed_ev_")
        try:
            for p in CLAIMED:
                r = sh([PY, "-m", "csa", "check", p, "--root", d], cwd=os.environ.get("CSA_HOME", "/verif"), env={**os.environ, "CSA_EVIDENCE_DIR": ev})
                status[p] = r.returncode
                if r.returncode == 1:
                    fired[p] = sorted(set(re.findall(r"\[csa\] FAIL (C\d\d\.R\d+)", r.stdout)))
                elif r.returncode == 2:
                    fired[p] = ["ANALYSIS-ERROR: " + (re.findall(r"ANALYSIS-ERROR.*", r.stdout) or ["?"])[0][:160]]
        finally:
            shutil.rmtree(ev, ignore_errors=True)
        res["fired"] = fired
        res["status"] = {k: v for k, v in status.items() if v != 0}
        return res
    finally:
        shutil.rmtree(d, ignore_errors=True)


def refresh_archive(run_tests: bool, only: str = "*") -> int:
    """Re-evaluate every archived seed (or those matching ``only``) against the current /repo and the current checks; rewrites 'fired' in meta.json."""
    from concurrent.futures import ThreadPoolExecutor

    dirs = sorted(glob.glob(f"/verif/seeded/{only}/"))

    def one(d):
        meta_p = os.path.join(d, "meta.json")
        meta = json.load(open(meta_p))
        r = evaluate(os.path.join(d, "patch.diff"), os.path.join(d, "demo.py"), run_tests)
        ok = r.get("applies") and r.get("compiles") and r.get("demo_pristine_rc") == 0 and r.get("demo_patched_rc", 0) != 0 and r.get("tests_ok", True)
        meta["fired"] = r.get("fired")
        own = (r.get("fired") or {}).get(meta["property"], [])
        meta["detected_by_target_property"] = bool(own) and not any(x.startswith("ANALYSIS") for x in own)
        meta["still_confirmed_on_current_repo"] = bool(ok)
        json.dump(meta, open(meta_p, "w"), indent=1)
        return os.path.basename(d.rstrip("/")), bool(ok), meta["detected_by_target_property"], r.get("fired")

    bad = 0
    with ThreadPoolExecutor(8) as ex:
        for name, ok, det, fired in ex.map(one, dirs):
            if not ok or not det:
                bad += 1
                print(f"{name}: confirmed={ok} target-detected={det} fired={fired}")
    print(f"{len(dirs)} archived seeds re-evaluated, {bad} need attention")
    return 0


def main() -> int:
    args = sys.argv[1:]
    if args and args[0] == "--archive":
        return refresh_archive("--with-tests" in args, args[args.index("--only") + 1] if "--only" in args else "*")
    keep = None
    run_tests = True
    if "--keep-as" in args:
        i = args.index("--keep-as")
        keep = args[i + 1]
        del args[i:i + 2]
    if "--no-tests" in args:
        args.remove("--no-tests")
        run_tests = False
    src = args[0]
    prop = (re.findall(r"C\d\d", src) or ["C??"])[-1]
    out = []
    for patch in sorted(glob.glob(os.path.join(src, "patch_*.diff"))):
        k = re.findall(r"patch_(\w+)\.diff", patch)[0]
        demo = os.path.join(src, f"demo_{k}.py")
        note = os.path.join(src, f"note_{k}.txt")
        r = evaluate(patch, demo if os.path.exists(demo) else None, run_tests)
        r["k"] = k
        r["note"] = open(note).read().strip() if os.path.exists(note) else ""
        confirmed = r.get("applies") and r.get("compiles") and r.get("tests_ok", not run_tests) and r.get("demo_pristine_rc") == 0 and r.get("demo_patched_rc", 0) != 0
        r["confirmed"] = bool(confirmed)
        own = r.get("fired", {}).get(prop, [])
        r["detected_by_target_property"] = bool(own) and not any(x.startswith("ANALYSIS") for x in own)
        out.append(r)
        print(f"== {prop} patch_{k}: confirmed={r['confirmed']} tests={r.get('tests_passed')} demo pristine/patched={r.get('demo_pristine_rc')}/{r.get('demo_patched_rc')} "
              f"target-detected={r['detected_by_target_property']}")
        print(f"   fired: {r.get('fired')}")
        if not r["confirmed"]:
            print("   NOT CONFIRMED:", {k2: v for k2, v in r.items() if k2 in ('applies', 'apply_error', 'compiles', 'tests_ok', 'tests_tail', 'demo_tail')})
        if keep and confirmed:
            dst = os.path.join("/verif/seeded", f"{keep}-{k}")
            os.makedirs(dst, exist_ok=True)
            shutil.copy(patch, os.path.join(dst, "patch.diff"))
            if os.path.exists(demo):
                shutil.copy(demo, os.path.join(dst, "demo.py"))
            meta = {
                "property": prop,
                "origin": "independent sub-agent given only the property text and a scratch worktree (nothing from /verif)",
                "needs_to_manifest": r["note"],
                "confirmed_by": "tools_seed.py on a scratch copy of /repo: patch applies, package byte-compiles, "
                                f"{r.get('tests_passed')} tests pass, demo exits 0 on the pristine copy and {r.get('demo_patched_rc')} with the patch",
                "checks_run": "every claimed quick check with --root <scratch copy>",
                "fired": r.get("fired"),
                "detected_by_target_property": r["detected_by_target_property"],
            }
            json.dump(meta, open(os.path.join(dst, "meta.json"), "w"), indent=1)
    return 0


if __name__ == "__main__":
    sys.exit(main())
