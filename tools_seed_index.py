"""Regenerate /verif/seeded/INDEX.md from the meta.json files (round-1 first-run status is recorded here by hand)."""
import glob, json, os

# status of the FIRST evaluation of each round-1 seed, before any rule was strengthened because of it:
#   T = reported by the target property's check, O = reported only by another property's check, - = reported by no check
FIRST_RUN = {
 "C01-1": "O", "C01-2": "O", "C01-3": "-", "C02-1": "T", "C02-2": "T", "C02-3": "-", "C03-1": "-", "C03-2": "O", "C03-3": "-",
 "C04-1": "-", "C04-2": "O", "C04-3": "T", "C05-1": "-", "C05-2": "T", "C05-3": "-", "C06-1": "T", "C06-2": "T", "C06-3": "-",
 "C07-1": "O", "C07-2": "T", "C07-3": "T", "C08-1": "O", "C08-2": "T", "C08-3": "T", "C09-1": "-", "C09-2": "T", "C09-3": "-",
 "C10-1": "T", "C10-2": "-", "C10-3": "T", "C11-1": "-", "C11-2": "-", "C11-3": "O", "C12-1": "T", "C12-2": "T", "C12-3": "-",
 "C13-1": "-", "C13-2": "-", "C13-3": "-", "C14-1": "T", "C14-2": "T", "C14-3": "T", "C15-1": "T", "C15-2": "T", "C15-3": "T",
 "C16-1": "O", "C16-2": "T", "C16-3": "T", "C17-1": "T", "C17-2": "-", "C17-3": "-", "C18-1": "-", "C18-2": "-", "C18-3": "T",
 "C20-1": "-", "C20-2": "T", "C20-3": "-",
 # round 2 (57 changes, evaluated first against a frozen snapshot of the machinery as committed before the round: commit d5a3a87)
 "C01-r2-1": "O", "C01-r2-2": "O", "C01-r2-3": "O", "C02-r2-1": "-", "C02-r2-2": "-", "C02-r2-3": "-",
 "C03-r2-1": "T", "C03-r2-2": "-", "C03-r2-3": "T", "C04-r2-1": "O", "C04-r2-2": "O", "C04-r2-3": "O",
 "C05-r2-1": "-", "C05-r2-2": "-", "C05-r2-3": "T", "C06-r2-1": "O", "C06-r2-2": "-", "C06-r2-3": "T",
 "C07-r2-1": "T", "C07-r2-2": "-", "C07-r2-3": "T", "C08-r2-1": "O", "C08-r2-2": "-", "C08-r2-3": "T",
 "C09-r2-1": "T", "C09-r2-2": "T", "C09-r2-3": "T", "C10-r2-1": "-", "C10-r2-2": "T", "C10-r2-3": "T",
 "C11-r2-1": "-", "C11-r2-2": "-", "C11-r2-3": "-", "C12-r2-1": "O", "C12-r2-2": "O", "C12-r2-3": "-",
 "C13-r2-1": "O", "C13-r2-2": "T", "C13-r2-3": "T", "C14-r2-1": "T", "C14-r2-2": "T", "C14-r2-3": "T",
 "C15-r2-1": "T", "C15-r2-2": "T", "C15-r2-3": "-", "C16-r2-1": "-", "C16-r2-2": "T", "C16-r2-3": "O",
 "C17-r2-1": "T", "C17-r2-2": "-", "C17-r2-3": "-", "C18-r2-1": "T", "C18-r2-2": "T", "C18-r2-3": "T",
 "C20-r2-1": "T", "C20-r2-2": "-", "C20-r2-3": "-",
 # round 3 (56 changes kept; first run against a frozen copy of the machinery as committed before the round; "n/a" = the patch conflicted with a
 # 'fix:' commit made while the round was running and was evaluated only after being rebased by hand)
 "C01-r3-1": "n/a", "C01-r3-2": "n/a", "C01-r3-3": "T", "C02-r3-1": "T", "C02-r3-2": "O", "C02-r3-3": "-", "C03-r3-1": "T", "C03-r3-2": "O",
 "C04-r3-1": "-", "C04-r3-2": "T", "C04-r3-3": "T", "C05-r3-1": "T", "C05-r3-2": "-", "C05-r3-3": "O", "C06-r3-1": "T", "C06-r3-2": "O",
 "C06-r3-3": "T", "C07-r3-1": "-", "C07-r3-2": "T", "C07-r3-3": "T", "C08-r3-1": "-", "C08-r3-2": "T", "C08-r3-3": "T", "C09-r3-1": "-",
 "C09-r3-2": "O", "C09-r3-3": "O", "C10-r3-1": "-", "C10-r3-2": "-", "C10-r3-3": "-", "C11-r3-1": "-", "C11-r3-2": "-", "C11-r3-3": "T",
 "C12-r3-1": "T", "C12-r3-2": "T", "C12-r3-3": "T", "C13-r3-1": "-", "C13-r3-2": "T", "C13-r3-3": "T", "C14-r3-1": "T", "C14-r3-2": "O",
 "C14-r3-3": "-", "C15-r3-1": "-", "C15-r3-2": "O", "C15-r3-3": "T", "C16-r3-1": "T", "C16-r3-2": "T", "C16-r3-3": "T", "C17-r3-1": "-",
 "C17-r3-2": "O", "C17-r3-3": "-", "C18-r3-1": "-", "C18-r3-2": "T", "C18-r3-3": "O", "C20-r3-1": "-", "C20-r3-2": "-", "C20-r3-3": "T",
}

rows = []
for d in sorted(glob.glob("/verif/seeded/*/meta.json")):
    name = os.path.basename(os.path.dirname(d))
    m = json.load(open(d))
    prop = m["property"]
    own = m["fired"].get(prop, [])
    others = sorted(r for p, rs in m["fired"].items() if p != prop for r in rs if not r.startswith("ANALYSIS"))
    first = FIRST_RUN.get(name, m.get("first_run", "?"))
    what = " ".join(m["needs_to_manifest"].split())[:230]
    rows.append((name, prop, first, ", ".join(own) or "**missed**", ", ".join(others), what))
with open("/verif/seeded/INDEX.md", "w") as fh:
    fh.write("# Seeded breaking changes (each written by an independent sub-agent from the property text only)\n\n")
    fh.write("`first run`: T = reported by the target property's check when first evaluated, O = only by another property's check, - = by no check. "
             "`now`: rules of the target property that report it on the committed machinery.\n\n")
    fh.write("| id | first run | now (target property) | also reported by | change / trigger |\n|---|---|---|---|---|\n")
    for r in rows:
        fh.write(f"| {r[0]} | {r[2]} | {r[3]} | {r[4]} | {r[5]} |\n")
    t = sum(1 for r in rows if r[2] == "T"); o = sum(1 for r in rows if r[2] == "O"); now = sum(1 for r in rows if "missed" not in r[3])
    fh.write("\nRemoved after the F15 fix: C03-3 and C04-1 (the same edit as C18-2, written independently by three sub-agents: the offset calculation moved "
             "below the recompilation in `_update_fields`). Their demos relied on the dynamic-alignment path of the generator being wrong (F15); once that was "
             "repaired they no longer fail, so they are not kept. C18-2 still manifests and is reported by C18.R4 / C03.R10 / C04.R7.\n")
    for label, sel in (("round 1", [r for r in rows if "-r" not in r[0]]), ("round 2", [r for r in rows if "-r2-" in r[0]]),
                       ("round 3", [r for r in rows if "-r3-" in r[0]]), ("round 4", [r for r in rows if "-r4-" in r[0]]), ("round 5", [r for r in rows if "-r5-" in r[0]]),
                       ("round 6", [r for r in rows if "-r6-" in r[0]]), ("round 7", [r for r in rows if "-r7-" in r[0]]), ("round 8", [r for r in rows if "-r8-" in r[0]]),
                       ("all rounds", rows)):
        if not sel:
            continue
        t = sum(1 for r in sel if r[2] == "T"); o = sum(1 for r in sel if r[2] == "O"); now = sum(1 for r in sel if "missed" not in r[3])
        fh.write(f"\nTotals {label}: {len(sel)} confirmed changes; first run: {t} by the target check, {o} more only by another check, {len(sel)-t-o} by none; "
                 f"now: {now}/{len(sel)} by the target check.\n")
    fh.write("\nRemoved after the F37 fix: C03-r6-2 (the enum-unwrapping step of the generator moved behind the supported-type check): the block packer now raises "
             "TypeError for an element type it cannot pack, so an enum over an unsupported storage type falls back whichever way the check is written - the "
             "change no longer alters behaviour and its demo passes.\n")
    fh.write("\nRound 3: 57 delivered; C03-r3-3 (a fourth copy of the 'one BitBuffer in the generated reader's globals' idea, also delivered as C02-r3-2, "
             "C06-r3-3 and C14-r3-1) no longer applied after the F23 fix and was not kept. C01-r3-1 and C01-r3-2 conflicted with F28 / F23 and were rebased by hand.\n")
    fh.write("\nRound 2 was evaluated first against a frozen copy of the machinery as committed before that round (so the first-run column is what an "
             "outsider's change met), then triaged. C07-r2-1 counted as T on the first run for the wrong reason (the terminator rule did not recognise the "
             "hoisted zero constant); the rule that reports it now (raw-bytes terminator test on a structure) was written during the triage.\n")
print(open("/verif/seeded/INDEX.md").read()[-400:])
