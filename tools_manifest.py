"""Regenerate MANIFEST.json from the rule modules that exist (keeps the manifest valid at all times)."""
import json, os, importlib

HERE = os.path.dirname(os.path.abspath(__file__))
PY = "/venv/bin/python"

LEVEL = {
 "C01": "slot exhaustiveness and pairing, reader/writer codec-key agreement per family, range-checked encoders with no lossy narrowing, static-array size guard, layout-key agreement of the three structure walkers, signedness-aware bit-unit flush",
 "C02": "zero-only padding writes, flush-dominates-emit in the structure writer (guard truth table), reader/generator reset mirrors, terminator re-appended by every null-terminated writer and consumed-not-returned by every reader loop",
 "C03": "fallback discipline around the source generator, layout-neutral compile, template-vs-interpreter bookkeeping parity, call-time configuration only, exhaustive type dispatch of the generator",
 "C04": "built-in type table against an independent C width/sign oracle, size/alignment provenance of every type factory, layout-calculator ordering obligations, one canonical round-up idiom, single source of size",
 "C05": "endianness is only ever read at call time (no store, cache, default or template hole can remember it), endianness maps agree, codec keys agree, LEB128 protocol constants agree",
 "C06": "the four 'open a new unit' decisions agree (truth tables), straddle rejection dominates, unit boundaries at non-bit fields, enum storage unwrapping, signed-unit flush, width-masked extraction",
 "C07": "count is clamped or the EOF sentinel, parsing context is forwarded along every _read chain, null-terminated loop shape, EOF mode handled by every bulk reader, expression fallback only for EOF, dimension nesting order",
 "C08": "every sized stream read is length-checked on every path before use (source and generated reader), no handler swallows a read failure, no parse-time residue on shared objects",
 "C09": "every seek on the input is relative to a tell() of the same call or SEEK_CUR, save/restore pairing, all call forms funnel into _read, shortcut constructions carry the read bookkeeping",
 "C10": "precedence table order relations vs C, left-associative pop condition, operator semantics table, tokenizer/evaluator operator agreement incl. marker symbols, stateless evaluation, lookup order",
 "C11": "per-member seek into the shared buffer, rebuild order write->store->update->proxify, update always followed by proxify, proxy keys are top-level member names through the recursion",
 "C12": "slot-wise delegation to the underlying type, value-preserving pseudo members, numbering agreement of the two parsers, class-scoped equality and hash on both Enum and Flag",
 "C13": "keyword tokens end at a word boundary, whitespace-insensitive gaps inside multi-part tokens, exhaustive dispatcher, alias table ownership and duplicate guard, bounded loud resolve, line-preserving comment stripping",
 "C14": "per-instance defaults (escape analysis of __default__ values into per-class constants), no replicated references, immutable module/class level state, one cstruct per type, history-free parsing",
 "C15": "effect analysis over the resolved call graph: nothing reachable from any parse or dump entry point writes to an object another thread can reach; parameter mutations checked at call sites",
 "C16": "pointer width/codec from configuration, construction parity (value, stream, context) in source and templates, arithmetic dunder table agreement, dereference discipline",
 "C17": "bytecode-level agreement of every generated-method template with its patcher for every field count n in range, field completeness of templates, one field list for all generated methods",
 "C18": "dirty->commit typestate on __fields__, commit refreshes every derived attribute on every path, self-reference path uses the same factory/compile condition",
 "C20": "every stub template parses as Python, identifier holes are sanitised, no check-after-use contradiction, completeness of emitter loops, faithful built-in type names",
}
TECH = ("static analysis: repository-specific AST / CFG / call-graph / effect / table / template rules (csa), plus bounded partial evaluation of pure leaf "
        "functions by the checker's own whitelist AST evaluator over finite symbolic input families (nothing from the repository is imported or executed)")
FOLDS = {
 "C01": "the four scalar codec families through all protocol slots, LEB128, the bit buffer, the interpreted structure reader / writer, the compiled reader (source generator interpreted, then the generated text), BaseArray incl. two-dimensional writes, the union writer",
 "C02": "the scalar codecs, LEB128, the bit buffer, the interpreted structure reader / writer, the compiled reader, CharArray / WcharArray writers, the union writer",
 "C03": "the compiled reader (compiler.compile interpreted on 40 000 field-kind cases, the generated source interpreted over a stream model) and the interpreted reader, both against one reference",
 "C04": "the layout calculators, _make_array, len(T), the interpreted structure reader / writer, positions and consumed size of the compiled reader",
 "C05": "the scalar codec families (five byte-order characters), LEB128, char / wchar incl. their array writers",
 "C06": "the bit buffer, the layout calculator, the interpreted structure reader / writer, the compiled reader on sequences with bit-fields",
 "C07": "_make_array, BaseArray._read / _write, the generic _read_array and _write_array / _write_0 (elements written on the caller's stream at absolute positions), the array slots of the scalar codecs, the LEB128 null-terminated reader, the text arrays, the expression evaluator, the token parser, the compiled reader on sequences with arrays",
 "C08": "the reading slots of the scalar codecs, StructureMetaType.__call__, MetaType.__call__, BaseArray, truncated images in the compiled reader",
 "C09": "_is_eof / the generic _read_array, LEB128, the call forms (MetaType / Structure / Union __call__), the input predicates, Pointer.dereference, the interpreted structure reader / writer, the layout calculator",
 "C10": "the expression evaluator (Expression(cs, text).evaluate(context) on 745 texts against an independent C-precedence evaluator, plus evaluations in sequence on one object), Expression._mark_unary_minus (bounded-exhaustive over token lists), Parser._array_count, _make_array, the token parser",
 "C11": "the union life cycle (read, assign directly and through nested structures, rebuild, re-read, proxify, dump - interpreted together on model unions against reference buffers), the union layout calculator, UnionMetaType.__call__, the union writer, the proxies, the rebuild, the accessor properties of anonymous members, the interpreted structure reader / writer, the token parser, StructureMetaType.__call__",
 "C12": "the enum / flag numbering statements (token parser fold), Enum.__eq__ / Flag.__eq__, the bit buffer reader and writer, the expression evaluator, the interpreted structure reader / writer, cstruct.__getattr__, the compiled reader on sequences with enums",
 "C13": "the token parser (TokenParser.parse interpreted against a model cstruct object: reference tables, comment / spacing / order variants, refused texts), cstruct.resolve over alias tables, cstruct.__getattr__, the comment replacer, add_type, Parser._array_count",
 "C16": "Pointer.dereference, Pointer.__new__ (addresses outside the pointer's width are kept), the null-terminated readers of char / wchar, the default-pointer expression, the compiled reader on sequences with pointers",
 "C17": "the generated-method patchers for every field count (bytecode layout), one default object per field, the accessor properties of anonymous members, the union life cycle and proxies, the interpreted structure reader / writer, MetaType.__call__, the bit buffer writer, BaseArray",
 "C18": "StructureMetaType.__call__, _update_fields (run against a class that carries poisoned previous state; the accessor properties it installs are called), add_field, commit, the token parser (pre-registration, compile requests, #[nocompile])",
 "C20": "the stub generator (generate_cstruct_stub interpreted on a model cstruct object, the text parsed and compared with the model), cstruct.__getattr__, cstruct.resolve, add_type (order of the typedef table), the token parser",
 "C14": "MetaType.__call__, the union life cycle (two values of one union type share no member object)",
 "C15": "the union life cycle (a second parse leaves the first value as it was)",
}

NA = {
 "C19": "value-level behaviour of the hexdump state machine and of int.to_bytes/from_bytes for all inputs; nothing in its truth is visible in the shape of the code, and the only structural clause (each pN/uN/swapN helper passes its own width) is already pinned by unit tests - an honest not-applicable for static analysis",
}

def main():
    checks = []
    na = [{"property_id": k, "reason": v} for k, v in NA.items()]
    for n in range(1, 21):
        pid = f"C{n:02d}"
        if pid in NA:
            continue
        if not os.path.exists(os.path.join(HERE, "csa", "rules", pid.lower() + ".py")):
            na.append({"property_id": pid, "reason": "static check for this property is not built yet (work in progress; see DESIGN.md section 4)"})
            continue
        checks.append({
            "property_id": pid,
            "quick_cmd": f"{PY} -m csa check {pid} --tier quick",
            "thorough_cmd": f"{PY} -m csa check {pid} --tier thorough",
            "evidence_file": f"/verif/evidence/{pid}.json",
            "replay_cmd_template": f"{PY} -m csa check {pid} --tier quick  # violations are listed in {{path}} (rule, file:line, construct)",
            "engine": "csa",
            "level_claimed": {
                "category": "other",
                "text": "Static decision of structural necessary conditions of the property, for all paths / call sites / templates / field counts at once: " + LEVEL[pid] + ". It decides those clauses, not the behavioural property as a whole (value-level arithmetic is out of reach of a sound static argument here)."
                        + (f" Some clauses are decided by bounded folds (DESIGN.md 9.7) of: {FOLDS[pid]} - agreement with a reference on a finite family of inputs, not a proof for all inputs." if pid in FOLDS else ""),
                "design_ref": f"DESIGN.md section 4 ({pid}) and section 9 (as built; 9.9 lists every rule)",
            },
            "level_note": "Trusted: CPython 3.12 ast/compile/struct/enum semantics; the checker's frozen receiver-typing and object-kind tables (re-validated structurally where possible); by-name call resolution for untyped receivers; user-defined types and user streams are outside the analysed program.",
            "technique": TECH,
        })
    m = {
        "version": 1,
        "setup_cmd": f"{PY} -m compileall -q csa",
        "hooks": {
            "guard": "FOX_IT_DISSECT_CSTRUCT_VERIF",
            "enable": "no hooks are needed: every check parses /repo's sources and never imports or runs them",
            "baseline_off_cmd": "cd /repo && /venv/bin/python -m pytest -ra -q -p no:cacheprovider --timeout=900 --continue-on-collection-errors",
            "source_commits": [],
            "add_only": True,
        },
        "engines": [{"name": "csa", "path": "/verif/csa", "serves_properties": [c["property_id"] for c in checks],
                     "kind_free_text": "purpose-built static analyser for dissect.cstruct: AST program model with C3 MRO and protocol-slot table, statement CFG with dominators and correlated-branch reachability, resolved call graph, write-effect analysis, literal-table extraction, code-template harvesting, compile()-only bytecode inspection"}],
        "checks": checks,
        "not_applicable": na,
        "notes": "All verdicts are computed from /repo's working tree on every run; nothing from /repo is imported. exit 0 ok (KNOWN-FINDING lines allowed), exit 1 VIOLATION, exit 2 ANALYSIS-ERROR (checker could not analyse the tree). Known findings: /verif/known_findings.json.",
    }
    with open(os.path.join(HERE, "MANIFEST.json"), "w") as fh:
        json.dump(m, fh, indent=1)
        fh.write("\n")
    print("claimed:", [c["property_id"] for c in checks])

if __name__ == "__main__":
    main()
