"""F3 (C15): two threads parsing with the same array type clobber each other's expression state.

Deterministic replay against the real code: thread A is paused by a line-level trace hook inside
Expression.evaluate after it has pushed its first operand; thread B then parses completely (its
evaluate() resets the work lists that live on the *shared* Expression object); A resumes.
Sequentially A yields 5 elements; under this schedule it does not.
Exit status 1 when the interference is observed (defect present), 0 when results match.
"""
import sys
import threading

from dissect.cstruct import cstruct
from dissect.cstruct import expression as expr_mod

cs = cstruct()
cs.load("struct s { uint8 n; uint8 d[n * 2 + 1]; };", compiled=False)
A_DATA = b"\x02" + bytes(range(5))   # n=2 -> 5 elements
B_DATA = b"\x00" + b"\x07"           # n=0 -> 1 element

seq_a = cs.s(A_DATA).d
seq_b = cs.s(B_DATA).d

a_paused = threading.Event()
b_done = threading.Event()
evaluate_code = expr_mod.Expression.evaluate.__code__
state = {"hits": 0}


def tracer(frame, event, arg):
    if frame.f_code is not evaluate_code:
        return None

    def local(frame, event, arg):
        # pause A the second time it reaches the loop increment (first operand already pushed)
        if event == "line" and frame.f_locals.get("i") == 1 and state["hits"] == 0:
            state["hits"] = 1
            a_paused.set()
            b_done.wait(5)
        return local

    return local


result = {}


def thread_a():
    sys.settrace(tracer)
    try:
        result["a"] = cs.s(A_DATA).d
    except Exception as e:  # noqa: BLE001
        result["a"] = e
    finally:
        sys.settrace(None)


def thread_b():
    a_paused.wait(5)
    try:
        result["b"] = cs.s(B_DATA).d
    except Exception as e:  # noqa: BLE001
        result["b"] = e
    b_done.set()


ta, tb = threading.Thread(target=thread_a), threading.Thread(target=thread_b)
ta.start(); tb.start(); ta.join(); tb.join()
print("sequential:", seq_a, seq_b)
print("interleaved:", repr(result.get("a")), repr(result.get("b")))
ok = result.get("a") == seq_a and result.get("b") == seq_b
print("EQUIVALENT" if ok else "INTERFERENCE")
sys.exit(0 if ok else 1)
