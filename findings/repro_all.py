"""Reproductions of the genuine defects found by the static rules (run with /venv/bin/python, cwd anywhere).

usage: repro_all.py [F1 F2 ...]   exit 0 = every selected defect is absent, 1 = at least one reproduces
These are demonstrations for the fix commits / known findings, not part of any registered check.
"""
import io
import sys

from dissect.cstruct import cstruct
from dissect.cstruct.expression import Expression


def F1():
    cs = cstruct()
    cs.load("union U { struct { struct { uint8 x; } inner; } outer; uint32 v; };")
    u = cs.U(b"\x00\x00\x00\x00")
    u.outer.inner.x = 1  # KeyError('inner') in Union._rebuild on the defective tree
    assert u.v == 1 and u.dumps() == b"\x01\x00\x00\x00", (u.v, u.dumps())


def F2():
    cs = cstruct()
    assert cs.uint48.__name__ == "uint48", cs.uint48.__name__


def F4():
    for endian in "<>":
        cs = cstruct(endian=endian)
        cs.load("struct a { int8 a:4; int8 b:4; }; struct b { int16 a:12; int16 b:4; }; struct c { int24 x:20; int24 y:4; };")
        for name, raw in (("a", b"\xff"), ("a", b"\x8f"), ("b", b"\xff\xf0"), ("b", b"\x80\x01"), ("c", b"\xff\x00\x80"), ("c", b"\x7f\x00\x01")):
            obj = getattr(cs, name)(raw)
            assert obj.dumps() == raw, (endian, name, raw, obj.dumps())  # struct.error on the defective tree


def F5a():
    cs = cstruct()
    cs.load("struct S { uint16 m[2][2]; };")
    s = cs.S()
    s.m[0][0] = 9
    assert s.m[1][0] == 0, "rows of the default are one list"


def F5b():
    cs = cstruct()
    cs.load("struct S { uint8 arr[2]; };")
    a, b = cs.S(), cs.S()
    a.arr[0] = 9
    assert b.arr[0] == 0 and cs.S().arr[0] == 0, "default-constructed instances share their array"


def F6():
    import ast
    from dissect.cstruct.tools.stubgen import generate_cstruct_stub
    cs = cstruct()
    cs.load("struct k { uint32 from; };")
    ast.parse(generate_cstruct_stub(cs))


def F7():
    import ast
    from dissect.cstruct.tools.stubgen import generate_cstruct_stub
    cs = cstruct()
    cs.add_type("a", "uint8")
    ast.parse(generate_cstruct_stub(cs))  # AttributeError on the defective tree


def F8():
    cs = cstruct()
    assert Expression(cs, "u - 1").evaluate({"u": 5}) == 4
    assert Expression(cs, "2 * u").evaluate({"u": 5}) == 10
    cs.load("struct s { uint8 u; uint8 d[u - 1]; };")
    assert len(cs.s(b"\x03abc").d) == 2


def F9():
    cs = cstruct()
    cs.load("struct C { char a[4]; };")
    assert cs.C(b"abcd")._sizes == cs.C.read(b"abcd")._sizes == {"a": 4}
    assert cs.C(b"abcd")._values == cs.C.read(b"abcd")._values


def F10():
    cs = cstruct()
    cs.load("struct s { uint8 x [4]; uint8 y\t[2]; };")
    assert len(cs.s) == 6


def F11():
    cs = cstruct()
    cs.load("union test { uint8 a; char b[]; };")
    data = b"\x41BC\x00"
    a = cs.test(io.BytesIO(data))
    s = io.BytesIO(b"XXXX" + data)
    s.seek(4)
    b = cs.test(s)
    assert a._sizes == b._sizes == {"a": 1, "b": 4}, (a._sizes, b._sizes)


def F12():
    import ast
    from dissect.cstruct.tools.stubgen import generate_cstruct_stub
    for d in ("typedef uint8 arr4[4];", "typedef uint8 *ptr;", "typedef char name_t[16]; struct s { name_t n; };"):
        cs = cstruct()
        cs.load(d)
        ast.parse(generate_cstruct_stub(cs))  # "class uint8[4](Array): ..." on the defective tree


def F13():
    import ast
    from dissect.cstruct.tools.stubgen import generate_cstruct_stub
    cs = cstruct()
    cs.load("enum : uint8 { A, B = 5 };")
    stub = generate_cstruct_stub(cs)
    ast.parse(stub)  # "A: Literal[<A: 0>] = ..." on the defective tree
    assert "A: Literal[0]" in stub and "B: Literal[5]" in stub, stub


def F14():
    data = bytes(range(1, 40))
    for d in ("struct t { uint8 a; struct { uint8 x; } n; uint32 b; };", "struct t { uint8 a:4; uint32 d; };"):
        out = []
        for comp in (True, False):
            cs = cstruct()
            cs.load(d, align=True, compiled=comp)
            assert cs.t.__compiled__ == comp
            o = cs.t(data)
            out.append((o.dumps(), o._sizes))
        assert out[0] == out[1], (d, out)  # compiled reader reads the scalar behind the gap from the wrong offset


def _both(d, data, **kw):
    out = []
    for comp in (True, False):
        cs = cstruct(**{k: v for k, v in kw.items() if k == "pointer"})
        cs.load(d, align=kw.get("align", False), compiled=comp)
        o = cs.t(data)
        out.append((repr(o), o._sizes, o.dumps()))
    return out


def F15():
    for n in (1, 2, 3, 5):
        a, b = _both("struct t { uint8 n; uint8 b[n]; uint32 c; uint8 d; uint64 e; };", bytes([n] + list(range(1, 80))), align=True)
        assert a == b, (n, a, b)


def F16():
    a, b = _both("enum E : uint24 { A = 1 }; struct t { E x[2]; uint8 q; };", bytes(range(1, 20)))
    assert a == b, (a, b)  # compiled reader returned six one-byte elements


def F17():
    a, b = _both("struct t { uint8 *p; uint8 q; };", bytes(range(1, 20)), pointer="uint24")
    assert a == b, (a, b)  # compiled reader raised ValueError


def F18():
    a, b = _both("struct t { uint8 a; char b; };", b"\x01A")
    assert a == b, (a, b)  # compiled reader raised NameError: name 'data' is not defined


def F19():
    a, b = _both("struct t { char a:4; uint8 b:4; };", b"\xab\xcd")
    assert a == b, (a, b)  # compiled reader took b from the char unit


def F20():
    for comp in (True, False):
        cs = cstruct()
        cs.load("#define n 2\nstruct t { uint8 n; uint8 d[n]; };", compiled=comp)
        assert cs.t(b"\x03abc").d == [97, 98, 99], cs.t(b"\x03abc")  # d had the frozen length 2


def F21():
    cs = cstruct()
    cs.load("flag f : int8 { A = 1 }; struct t { f x; };")
    o = cs.t(b"\xff")
    assert o.x.value == -1 and o.dumps() == b"\xff", (o, o.dumps())  # value folded to <f.A: 1>, dumps b'\x01'


def F22():
    from dissect.cstruct import compiler
    from dissect.cstruct.types.structure import Field

    out = []
    for comp in (True, False):
        cs = cstruct()
        st = cs._make_struct("t", [Field("a", cs.uint32, offset=4), Field("b", cs.uint16, offset=0)])
        if comp:
            st = compiler.compile(st)
            assert st.__compiled__
        out.append(repr(st(bytes(range(1, 9)))))
    assert out[0] == out[1], out  # compiled reader raised EOFError


def F23():
    import io

    for comp in (True, False):
        cs = cstruct()
        cs.load("struct e { };\nstruct t { uint32 a; e x; uint32 b; };", align=True, compiled=comp)
        fh = io.BytesIO(bytes(range(1, 30)))
        fh.seek(8)
        cs.e(fh)
        assert fh.tell() == 8, (comp, fh.tell())  # the stream was moved back to 0
        assert cs.t(bytes(range(1, 13))).b == 0x08070605, (comp, cs.t(bytes(range(1, 13))))


def F24():
    cs = cstruct()
    cs.load("struct t { uint8 n; uint8 d[n]; uint8 a:3; uint8 b:5; };")  # raised TypeError
    assert cs.t(b"\x01\x02\xff").b == 0x1F


def F25():
    a, b = _both("struct t { uint16 x:4; uint8 a:2; uint8 b:2; uint32 c; };", bytes(range(1, 13)), align=True)
    assert a == b, (a, b)  # compiled reader read c from offset 3


def F26():
    cs = cstruct()
    cs.load("struct t { int8 a:4; int8 b:4; };")
    try:
        out = cs.t(a=1, b=0x13).dumps()
    except Exception:  # noqa: BLE001
        return
    raise AssertionError(f"too wide bit-field value silently dumped as {out!r}")


def F27():
    cs = cstruct()
    cs.load("enum E : uint16 { A = 1 }; struct inner { uint16 a:4; E b:4; };", align=True)
    cs.load("struct t { uint8 t; inner i; uint8 e; };")
    raw = b"\x01\x21\x00\x00\x09"
    assert cs.t(raw).dumps() == raw, cs.t(raw).dumps()  # a pad byte was written in front of the pending unit


def F28():
    cs = cstruct()
    cs.load("struct t { uint16 a:4; uint16 b:12; }; struct u { int8 a:4; int8 b:4; };")
    for make in (lambda: cs.t(a=0x13, b=0), lambda: cs.u(a=1, b=-2)):
        try:
            out = make().dumps()
        except Exception:  # noqa: BLE001
            continue
        raise AssertionError(f"a bit-field value that does not fit was silently dumped as {out!r}")


def F29():
    from dissect.cstruct.tools.stubgen import generate_cstruct_stub

    cs = cstruct()
    cs.load("enum E : uint8 { };")
    compile(generate_cstruct_stub(cs), "<stub>", "exec")  # IndentationError


def F30():
    from dissect.cstruct.tools.stubgen import generate_cstruct_stub

    cs = cstruct()
    cs.load("typedef uint8 arr1[4]; typedef uint8 arr2[4]; typedef uint8 *p1; typedef uint8 *p2;")
    stub = generate_cstruct_stub(cs)
    compile(stub, "<stub>", "exec")  # SyntaxError: p2: TypeAlias = uint8*
    assert "uint8[4]" not in stub, stub


def F31():
    cs = cstruct()
    cs.load("union t { struct { uint8 x; uint8 y; }; uint16 v; };")
    o = cs.t(b"\x01\x02")
    o.x = 5  # KeyError('x') after the value was applied
    assert o.dumps() == b"\x05\x02"


def F32():
    cs = cstruct()
    cs.load("union t { struct { uint8 x; uint8 y; uint8 z; }; uint16 v; };")
    assert cs.t(b"\x01\x02\x03").dumps() == b"\x01\x02\x03", cs.t(b"\x01\x02\x03").dumps()


def F33():
    cs = cstruct()
    cs.load("struct s { uint8 lo; uint8 hi; }; union t { s s; uint16 v; };")
    o = cs.t(b"\x01\x02")
    p = o.s
    p.lo = 9
    p.hi = 8
    assert o.dumps() == b"\x09\x08", o.dumps()  # the second write through the (stale) proxy is lost


def F34():
    import io

    out = []
    for comp in (False, True):
        cs = cstruct()
        cs.load("struct S { uint16 a:4; uint16 b:12; uint16 c:4; };", align=True, compiled=comp)
        fh = io.BytesIO(bytes(range(1, 20)))
        fh.seek(3)
        out.append(cs.S(fh).c)
    assert out[0] == out[1], out
    cs = cstruct()
    cs.load("struct T { uint8 n; uint8 d[n]; uint24 a:4; uint24 b:4; uint8 c; };", align=True)
    o = cs.T(n=1, d=[7], a=3, b=5, c=0x99)
    assert cs.T(o.dumps()) == o


def F35():
    cs = cstruct()
    cs.load("struct S { uint24 a:20; uint24 b:4; uint8 c; };", align=True)
    o = cs.S(a=0x12345, b=6, c=0x99)
    assert cs.S(o.dumps()) == o, (o.dumps().hex(), cs.S(o.dumps()))


def F36():
    from dissect.cstruct.tools.stubgen import generate_cstruct_stub

    cs = cstruct()
    cs.load("struct child { uint8 a; }; struct S { child x[2]; struct { uint8 a; } *q; };")
    out = generate_cstruct_stub(cs)
    assert out.count("class child(") == 1 and "cstruct.__anonymous_0__" not in out, out


def F37():
    from dissect.cstruct.types import BaseType

    class Cust(BaseType):
        @classmethod
        def _read(cls, stream, context=None):
            d = stream.read(2)
            if len(d) != 2:
                raise EOFError
            return type.__call__(cls, d)

        def __init__(self, v=b"\0\0"):
            self.v = v

    out = []
    for comp in (False, True):
        cs = cstruct()
        cs.add_custom_type("cust", Cust, 2)
        cs.load("struct t { uint8 a; cust c[2]; uint8 b; };", compiled=comp)
        fh = io.BytesIO(bytes(range(1, 10)))
        v = cs.t(fh)
        out.append((v.a, [c.v for c in v.c], v.b, fh.tell()))
    assert out[0] == out[1], out


def F38():
    out = []
    for comp in (False, True):
        cs = cstruct()
        cs.load("struct t { uint24 a; uint8 b[0]; };", compiled=comp)
        v = cs.t(b"\x01\x02\x03\x04")
        out.append((v.a, list(v.b)))
    assert out[0] == out[1], out


def F39():
    cs = cstruct()
    cs.load("struct p { uint8 x; uint8 y; }; union inner { struct p s; uint16 w; }; union outer { union inner i; uint32 d; };")
    o = cs.outer(b"\x01\x02\x03\x04")
    o.i.s.x = 9
    assert o.d == 0x04030209 and o.i.w == 0x0209 and o.dumps() == b"\x09\x02\x03\x04", (o, o.dumps())


def F40():
    cs = cstruct()
    cs.load("struct S { char a:4; };")
    assert cs.S(b"\x21").a == cs.S(io.BytesIO(b"\x21")).a == cs.S.reads(b"\x21").a == 1, (cs.S(b"\x21"), cs.S.reads(b"\x21"))


ALL = {k: v for k, v in globals().items() if k.startswith("F") and callable(v)}

if __name__ == "__main__":
    sel = sys.argv[1:] or sorted(ALL)
    bad = 0
    for k in sel:
        try:
            ALL[k]()
            print(f"{k}: absent")
        except Exception as e:  # noqa: BLE001
            bad += 1
            print(f"{k}: REPRODUCES  {type(e).__name__}: {e}")
    sys.exit(1 if bad else 0)
